fn main() {
    let x = u64::from_str_radix(&std::env::args().nth(1).unwrap(), 16).unwrap();
    let c = a5::cell_to_lonlat(x).unwrap(); println!("centre {} {}", c.longitude(), c.latitude());
    let cell = a5::core::serialization::deserialize(x).unwrap();
    println!("{:?}", cell);
    let s = a5::core::coordinate_transforms::from_lon_lat(c);
    let o = &a5::core::origin::get_origins()[cell.origin_id as usize];
    println!("theta {} phi {} ; face axis theta {} phi {}", s.theta().get(), s.phi().get(), o.axis.theta().get(), o.axis.phi().get());
}
