use a5::coordinate_systems::Radians;
const E2: f64 = 0.0066943799901413165;
const PI: f64 = std::f64::consts::PI;
fn q_of_sin(s: f64) -> f64 { let e = E2.sqrt(); (1.0 - E2) * (s / (1.0 - E2 * s * s) - (1.0 / (2.0 * e)) * ((1.0 - e * s) / (1.0 + e * s)).ln()) }
fn colat(lat_deg: f64) -> f64 {
    let a = lat_deg.abs(); let qp = q_of_sin(1.0);
    if a <= 60.0 { return PI / 2.0 - (q_of_sin(a.to_radians().sin()) / qp).max(-1.0).min(1.0).asin(); }
    let delta = (90.0 - a).to_radians(); let oms = 2.0 * (delta / 2.0).sin().powi(2);
    let g = |t: f64| 2.0 * (1.0 - E2) / (1.0 - E2 * t * t).powi(2);
    let n = 64; let mut acc = g(1.0) + g(1.0 - oms);
    for k in 1..n { let u = k as f64 / n as f64; acc += g(1.0 - u * oms) * if k % 2 == 1 { 4.0 } else { 2.0 }; }
    let integral = oms * acc / (3.0 * n as f64);
    2.0 * (integral / (2.0 * qp)).sqrt().min(1.0).asin()
}
fn main() {
    let p = a5::projections::authalic::AuthalicProjection;
    for lat in [0.0, 30.0, 59.9, 60.1, 80.0, 89.0, 89.9, 89.99, 89.999, 89.9999, 89.99999, 89.999999] {
        let lib = PI / 2.0 - p.forward(Radians::new_unchecked((lat as f64).to_radians())).get();
        let mine = colat(lat);
        println!("lat {} lib colat {:e} mine {:e} rel diff {:e}", lat, lib, mine, (lib - mine) / mine);
    }
}
