fn main() {
    let a: Vec<String> = std::env::args().collect();
    let lon: f64 = a[1].parse().unwrap(); let lat: f64 = a[2].parse().unwrap();
    for r in [16, 20, 24, 26, 28, 29] {
        let c = a5::lonlat_to_cell(a5::LonLat::new(lon, lat), r).unwrap();
        println!("{:x}", c);
    }
}
