use a5::core::cell::CellToBoundaryOptions;
fn main() {
    let x = u64::from_str_radix(&std::env::args().nth(1).unwrap(), 16).unwrap();
    for n in [1, 2] {
        let r = a5::cell_to_boundary(x, Some(CellToBoundaryOptions { closed_ring: false, segments: Some(n) })).unwrap();
        println!("n={}", n);
        for p in r { println!("  {:.6} {:.6}", p.longitude(), p.latitude()); }
    }
    let c = a5::cell_to_lonlat(x).unwrap(); println!("centre {} {}", c.longitude(), c.latitude());
}
