//! Executable form of the specification used by the contracts (written from the property
//! statements; mirrors /verif/contracts/inc/*_spec.rs, shares no code with /repo).

/// first quintant per face, indexed by the (re-ordered) face id of the reference release v0.6.2
pub const FQ: [usize; 12] = [4, 2, 3, 0, 2, 4, 2, 2, 3, 0, 3, 0];

#[derive(Clone, Copy, PartialEq, Eq, Debug, Hash, PartialOrd, Ord)]
pub struct Cell {
    pub o: u8,
    pub seg: usize,
    pub s: u64,
    pub r: i32,
}

pub const WORLD: Cell = Cell { o: 0, seg: 0, s: 0, r: -1 };

pub fn marker_pos(r: i32) -> u32 {
    if r < 2 { (57 - r) as u32 } else { (59 - 2 * r) as u32 }
}

pub fn s_limit(r: i32) -> u64 {
    if r < 2 { 1 } else { 1u64 << (2 * r - 2) }
}

pub fn valid(c: Cell) -> bool {
    if c.r == -1 {
        return c.o == 0 && c.seg == 0 && c.s == 0;
    }
    (0..=29).contains(&c.r) && c.o < 12 && c.seg < 5 && (c.r != 0 || c.seg == 0) && c.s < s_limit(c.r)
}

pub fn code6(c: Cell) -> u64 {
    if c.r == 0 { c.o as u64 } else { 5 * c.o as u64 + ((c.seg + 5 - FQ[c.o as usize]) % 5) as u64 }
}

pub fn enc(c: Cell) -> u64 {
    if c.r == -1 {
        return 0;
    }
    let p = marker_pos(c.r);
    (code6(c) << 58) | (c.s << (p + 1)) | (1u64 << p)
}

pub fn res_of(x: u64) -> i32 {
    let mut r = 29;
    while r >= 0 {
        if (x >> marker_pos(r)) & 1 == 1 {
            return r;
        }
        r -= 1;
    }
    -1
}

pub fn dec(x: u64) -> Option<Cell> {
    let r = res_of(x);
    if r == -1 {
        return Some(WORLD);
    }
    let top6 = (x >> 58) as usize;
    let o = if r == 0 { top6 } else { top6 / 5 };
    if o >= 12 {
        return None;
    }
    let seg = if r == 0 { 0 } else { (top6 + FQ[o]) % 5 };
    let s = if r < 2 { 0 } else { (x & 0x03ff_ffff_ffff_ffff) >> (60 - 2 * r) };
    Some(Cell { o: o as u8, seg, s, r })
}

pub fn canonical(x: u64) -> bool {
    match dec(x) {
        Some(c) => valid(c) && enc(c) == x,
        None => false,
    }
}

pub fn parent1(c: Cell) -> Cell {
    if c.r >= 3 {
        Cell { s: c.s / 4, r: c.r - 1, ..c }
    } else if c.r == 2 {
        Cell { s: 0, r: 1, ..c }
    } else if c.r == 1 {
        Cell { seg: 0, s: 0, r: 0, ..c }
    } else {
        WORLD
    }
}

pub fn anc(mut c: Cell, r: i32) -> Cell {
    while c.r > r {
        c = parent1(c);
    }
    c
}

/// hierarchy fan-out between resolutions r <= t (12 under the world cell, 5 per base cell, 4 after)
pub fn fanout(r: i32, t: i32) -> u128 {
    let mut n: u128 = 1;
    let mut k = r;
    while k < t {
        n *= if k == -1 { 12 } else if k == 0 { 5 } else { 4 };
        k += 1;
    }
    n
}

/// children of c at resolution t in curve order
pub fn kids(c: Cell, t: i32) -> Vec<Cell> {
    let mut cur = vec![c];
    let mut r = c.r;
    while r < t {
        let mut next = Vec::with_capacity(cur.len() * 4);
        for p in &cur {
            if r == -1 {
                for o in 0..12u8 {
                    next.push(Cell { o, seg: 0, s: 0, r: 0 });
                }
            } else if r == 0 {
                for seg in 0..5usize {
                    next.push(Cell { o: p.o, seg, s: 0, r: 1 });
                }
            } else if r == 1 {
                for i in 0..4u64 {
                    next.push(Cell { s: i, r: 2, ..*p });
                }
            } else {
                for i in 0..4u64 {
                    next.push(Cell { s: 4 * p.s + i, r: r + 1, ..*p });
                }
            }
        }
        cur = next;
        r += 1;
    }
    cur
}

/// normal form of a set of cells: drop cells covered by an ancestor in the set, then merge complete
/// sibling groups until none is left.  Unique maximal antichain with the same cover.
pub fn normal_form(cells: &[Cell]) -> std::collections::BTreeSet<Cell> {
    use std::collections::BTreeSet;
    let set: BTreeSet<Cell> = cells.iter().copied().collect();
    let mut cur: BTreeSet<Cell> = BTreeSet::new();
    for &c in &set {
        let mut covered = false;
        let mut a = c;
        while a.r > -1 {
            a = parent1(a);
            if set.contains(&a) {
                covered = true;
                break;
            }
        }
        if !covered {
            cur.insert(c);
        }
    }
    loop {
        let mut merged = false;
        let snapshot: Vec<Cell> = cur.iter().copied().collect();
        for c in snapshot {
            if c.r < 0 || !cur.contains(&c) {
                continue;
            }
            let p = parent1(c);
            let sibs = kids(p, c.r);
            if sibs.iter().all(|k| cur.contains(k)) {
                for k in &sibs {
                    cur.remove(k);
                }
                cur.insert(p);
                merged = true;
            }
        }
        if !merged {
            break;
        }
    }
    cur
}

pub fn is_antichain(cells: &[Cell]) -> bool {
    use std::collections::BTreeSet;
    let set: BTreeSet<Cell> = cells.iter().copied().collect();
    if set.len() != cells.len() {
        return false;
    }
    for &c in &set {
        let mut a = c;
        while a.r > -1 {
            a = parent1(a);
            if set.contains(&a) {
                return false;
            }
        }
    }
    true
}
