//! geo: BOUNDED, sample-based stand-ins for the float-geometry sentences of C04 / C11 / C18 that no contract
//! can decide (Verus has no f64 semantics, CBMC no libm).  Never counted as proved.  Each op calls the real a5
//! API and compares with an oracle written here from the property text (own trigonometry, own authalic
//! latitude, own spherical area), with the tolerance the property states.
use crate::spec::*;
use a5::coordinate_systems::{LonLat, Radians, Spherical};
use a5::core::cell::CellToBoundaryOptions;
use a5::core::coordinate_transforms::to_lon_lat;
use a5::core::origin::{find_nearest_origin, get_origins};
use std::f64::consts::PI;
use std::panic::{catch_unwind, AssertUnwindSafe};

type V3 = [f64; 3];

fn guard<T>(f: impl FnOnce() -> T) -> Result<T, String> {
    catch_unwind(AssertUnwindSafe(f)).map_err(|_| "panic".to_string())
}
fn unit(theta: f64, phi: f64) -> V3 {
    [phi.sin() * theta.cos(), phi.sin() * theta.sin(), phi.cos()]
}
fn dot(a: V3, b: V3) -> f64 {
    a[0] * b[0] + a[1] * b[1] + a[2] * b[2]
}
fn sub(a: V3, b: V3) -> V3 {
    [a[0] - b[0], a[1] - b[1], a[2] - b[2]]
}
fn add(a: V3, b: V3) -> V3 {
    [a[0] + b[0], a[1] + b[1], a[2] + b[2]]
}
fn scale(a: V3, k: f64) -> V3 {
    [a[0] * k, a[1] * k, a[2] * k]
}
fn cross(a: V3, b: V3) -> V3 {
    [a[1] * b[2] - a[2] * b[1], a[2] * b[0] - a[0] * b[2], a[0] * b[1] - a[1] * b[0]]
}
fn norm(a: V3) -> f64 {
    dot(a, a).sqrt()
}
fn normalize(a: V3) -> V3 {
    scale(a, 1.0 / norm(a))
}
/// great-circle angle between unit vectors (atan2 form: accurate for small and for near-antipodal angles)
fn angle(a: V3, b: V3) -> f64 {
    norm(cross(a, b)).atan2(dot(a, b))
}
fn to_theta_phi(v: V3) -> (f64, f64) {
    let v = normalize(v);
    (v[1].atan2(v[0]), v[2].max(-1.0).min(1.0).acos())
}
fn axes() -> Vec<V3> {
    get_origins().iter().map(|o| unit(o.axis.theta().get(), o.axis.phi().get())).collect()
}
const NEIGHBOUR_ANGLE: f64 = 1.1071487177940904; // atan(2) = 63.4349488 degrees (regular dodecahedron)

const E2: f64 = 0.0066943799901413165; // WGS84 first eccentricity squared
fn q_of_sin(s: f64) -> f64 {
    let e = E2.sqrt();
    (1.0 - E2) * (s / (1.0 - E2 * s * s) - (1.0 / (2.0 * e)) * ((1.0 - e * s) / (1.0 + e * s)).ln())
}
/// closed-form WGS84 authalic COLATITUDE (radians, measured from the nearer pole) of a geodetic latitude in degrees,
/// independent of the crate's series.  Away from the poles: asin(q / qp).  Near a pole asin is ill-conditioned, so
/// qp - q(s) is computed as the integral of dq/ds = 2 (1 - e^2) / (1 - e^2 s^2)^2 over [s, 1] (Simpson, smooth
/// integrand), which keeps full RELATIVE accuracy in the distance from the pole.
fn authalic_colat_from_nearer_pole(lat_deg: f64) -> f64 {
    let a = lat_deg.abs();
    let qp = q_of_sin(1.0);
    if a <= 60.0 {
        return PI / 2.0 - (q_of_sin(a.to_radians().sin()) / qp).max(-1.0).min(1.0).asin();
    }
    let delta = (90.0 - a).to_radians(); // geodetic colatitude
    let oms = 2.0 * (delta / 2.0).sin().powi(2); // 1 - sin(lat)
    let g = |t: f64| 2.0 * (1.0 - E2) / (1.0 - E2 * t * t).powi(2);
    let n = 64;
    let mut acc = g(1.0) + g(1.0 - oms);
    for k in 1..n {
        let u = k as f64 / n as f64;
        acc += g(1.0 - u * oms) * if k % 2 == 1 { 4.0 } else { 2.0 };
    }
    let integral = oms * acc / (3.0 * n as f64);
    2.0 * (integral / (2.0 * qp)).sqrt().min(1.0).asin()
}
/// unit vector on the authalic sphere of a geodetic lon/lat in degrees
fn vec_of_lonlat(p: &LonLat) -> V3 {
    let lam = p.longitude().to_radians();
    let c = authalic_colat_from_nearer_pole(p.latitude());
    let z = if p.latitude() >= 0.0 { c.cos() } else { -c.cos() };
    [c.sin() * lam.cos(), c.sin() * lam.sin(), z]
}
/// signed spherical excess of the triangle (a, b, c) of unit vectors, computed from difference vectors so that
/// it stays accurate for triangles of 1e-9 rad
fn tri_excess(a: V3, b: V3, c: V3) -> f64 {
    let ab = sub(b, a);
    let ac = sub(c, a);
    let triple = dot(a, cross(ab, ac));
    let den = 1.0 + dot(a, b) + dot(b, c) + dot(c, a);
    2.0 * triple.atan2(den)
}

fn pf(s: &str) -> f64 {
    s.parse().unwrap()
}
fn pu64(s: &str) -> u64 {
    if let Some(h) = s.strip_prefix("0x") { u64::from_str_radix(h, 16).unwrap() } else { s.parse().unwrap() }
}
fn hx(x: u64) -> String {
    format!("0x{:x}", x)
}

fn plain_vec(lon_deg: f64, lat_deg: f64) -> V3 {
    let (l, b) = (lon_deg.to_radians(), lat_deg.to_radians());
    [b.cos() * l.cos(), b.cos() * l.sin(), b.sin()]
}
fn bits(x: f64) -> String {
    format!("{:016x}", x.to_bits())
}
fn unbits(s: &str) -> f64 {
    f64::from_bits(u64::from_str_radix(s, 16).unwrap())
}

/// one-time dump (reference release): `geo <id> c=<lon>,<lat> p=<lon>,<lat>;... back=<id>` (f64 as bit patterns)
pub fn dump_geo() {
    let mut rng = crate::ops::Rng::new(20260901);
    let mut ids: Vec<u64> = vec![];
    for c in a5::uncompact(&[0], 1).unwrap() {
        ids.push(c);
        ids.push(a5::cell_to_parent(c, Some(0)).unwrap());
    }
    for r in [2, 5, 10, 20, 29] {
        for lon in [87.0, 86.9, 87.2, -93.0, -92.8, 180.0, -179.9, 179.9, 0.0, 51.0, 123.0] {
            for lat in [26.565, -26.565, 0.0, 52.62, -52.62, 10.8, -10.8, 75.0, -75.0, 89.0, -89.0] {
                ids.push(a5::lonlat_to_cell(LonLat::new(lon, lat), r).unwrap());
            }
        }
    }
    for _ in 0..3000 {
        let lon = (rng.below(3_600_000) as f64) / 10_000.0 - 180.0;
        let lat = (rng.below(1_790_001) as f64) / 10_000.0 - 89.5;
        let r = rng.below(30) as i32;
        ids.push(a5::lonlat_to_cell(LonLat::new(lon, lat), r).unwrap());
    }
    ids.sort_unstable();
    ids.dedup();
    for x in ids {
        let d = dec(x).unwrap();
        let c = a5::cell_to_lonlat(x).unwrap();
        if c.latitude().abs() > 89.5 {
            continue; // within reach of defect F17 (acos at the poles): the reference itself is off there
        }
        let ring = a5::cell_to_boundary(x, Some(CellToBoundaryOptions { closed_ring: false, segments: Some(1) })).unwrap();
        let back = a5::lonlat_to_cell(c, d.r).unwrap();
        let pts: Vec<String> = ring.iter().map(|p| format!("{},{}", bits(p.longitude()), bits(p.latitude()))).collect();
        println!("geo {:x} c={},{} p={} back={:x}", x, bits(c.longitude()), bits(c.latitude()), pts.join(";"), back);
    }
    // point lookups: `pt <lon> <lat> <r> <id>`; consecutive lines alternate between the two sides of a seam
    // (100 m .. 5 km off it), so a check that replays the file in order also exercises history-dependent shortcuts
    let ax = axes();
    for i in 0..12 {
        for j in (i + 1)..12 {
            if (angle(ax[i], ax[j]) - NEIGHBOUR_ANGLE).abs() > 1e-6 {
                continue;
            }
            let m = normalize(add(ax[i], ax[j]));
            let across = normalize(sub(ax[j], ax[i]));
            let along = normalize(cross(m, across));
            for al in [0.0f64, 5.0, -11.0] {
                let a = al.to_radians();
                let q = normalize(add(scale(m, a.cos()), scale(along, a.sin())));
                for off in [0.001f64, 0.003, 0.01, 0.05] {
                    for r in [0, 1, 15, 29] {
                        for sgn in [-1.0, 1.0] {
                            let o = (off * sgn).to_radians();
                            let p = normalize(add(scale(q, o.cos()), scale(across, o.sin())));
                            let (t, ph) = to_theta_phi(p);
                            let ll = to_lon_lat(Spherical::new(Radians::new_unchecked(t), Radians::new_unchecked(ph)));
                            if ll.latitude().abs() > 89.5 {
                                continue;
                            }
                            let id = a5::lonlat_to_cell(ll, r).unwrap();
                            println!("pt {} {} {} {:x}", bits(ll.longitude()), bits(ll.latitude()), r, id);
                        }
                    }
                }
            }
        }
    }
    for k in 0..2000 {
        let lon = (rng.below(3_600_000) as f64) / 10_000.0 - 180.0;
        let lat = (rng.below(1_790_001) as f64) / 10_000.0 - 89.5;
        let r = if k % 2 == 0 { 22 + rng.below(8) as i32 } else { rng.below(30) as i32 };
        let id = a5::lonlat_to_cell(LonLat::new(lon, lat), r).unwrap();
        println!("pt {} {} {} {:x}", bits(lon), bits(lat), r, id);
    }
}

/// C06, float pipeline (BOUNDED: the sample of the frozen dump): this tree reproduces the reference release's
/// centre and corners of a cell to 1e-9 degrees and maps the reference centre back to the same ID
fn reference_geo(line: &str) -> Result<(), String> {
    let t: Vec<&str> = line.split(' ').collect();
    if t.len() == 5 && t[0] == "pt" {
        let (lon, lat) = (unbits(t[1]), unbits(t[2]));
        let r: i32 = t[3].parse().unwrap();
        let want = u64::from_str_radix(t[4], 16).unwrap();
        let got = guard(|| a5::lonlat_to_cell(LonLat::new(lon, lat), r))?.map_err(|e| format!("lonlat_to_cell(({}, {}), {}): {}", lon, lat, r, e))?;
        if got != want {
            return Err(format!("lonlat_to_cell(({}, {}), {}) = {}, reference release: {}", lon, lat, r, hx(got), hx(want)));
        }
        return Ok(());
    }
    if t.len() != 5 || t[0] != "geo" {
        return Err(format!("malformed reference line {:?}", line));
    }
    let x = u64::from_str_radix(t[1], 16).unwrap();
    let d = dec(x).ok_or_else(|| format!("reference id {} does not decode", hx(x)))?;
    let pair = |s: &str| -> (f64, f64) {
        let mut it = s.split(',');
        (unbits(it.next().unwrap()), unbits(it.next().unwrap()))
    };
    let (clon, clat) = pair(&t[2][2..]);
    let want_ring: Vec<(f64, f64)> = t[3][2..].split(';').map(pair).collect();
    let want_back = u64::from_str_radix(&t[4][5..], 16).unwrap();
    let tol_deg = 1e-9;
    let c = guard(|| a5::cell_to_lonlat(x))?.map_err(|e| format!("cell_to_lonlat({}): {}", hx(x), e))?;
    let dist = angle(plain_vec(c.longitude(), c.latitude()), plain_vec(clon, clat)).to_degrees();
    if !(dist <= tol_deg) {
        return Err(format!(
            "cell_to_lonlat({}) = ({}, {}), reference release: ({}, {}) - {:.3e} degrees apart",
            hx(x), c.longitude(), c.latitude(), clon, clat, dist
        ));
    }
    let got_ring = ring(x, 1)?;
    if got_ring.len() != want_ring.len() {
        return Err(format!("cell_to_boundary({}, 1 segment) has {} corners, reference release: {}", hx(x), got_ring.len(), want_ring.len()));
    }
    for (wl, wb) in &want_ring {
        let w = plain_vec(*wl, *wb);
        let best = got_ring.iter().map(|p| angle(plain_vec(p.longitude(), p.latitude()), w).to_degrees()).fold(f64::INFINITY, f64::min);
        if !(best <= tol_deg) {
            return Err(format!(
                "cell_to_boundary({}): reference corner ({}, {}) is {:.3e} degrees from the nearest corner reported by this tree",
                hx(x), wl, wb, best
            ));
        }
    }
    let back = guard(|| a5::lonlat_to_cell(LonLat::new(clon, clat), d.r))?.map_err(|e| format!("lonlat_to_cell(reference centre of {}): {}", hx(x), e))?;
    if back != want_back {
        return Err(format!(
            "lonlat_to_cell(({}, {}), {}) = {}, reference release: {}",
            clon, clat, d.r, hx(back), hx(want_back)
        ));
    }
    Ok(())
}

pub fn run_geo(op: &str, a: &[String]) -> Option<Result<(), String>> {
    Some(match op {
        // optional second argument: the line that precedes this one in the file; it is replayed first (result ignored) so
        // that a witness that depends on the previous lookup reproduces when replayed on its own
        "reference_geo" => {
            if a.len() > 1 {
                let _ = reference_geo(&a[1].replace('~', " "));
            }
            reference_geo(&a[0].replace('~', " "))
        }
        "frame" => frame(),
        // two points = two consecutive lookups in this process (history: a cache keyed on the previous query would show)
        "nearest_face" => nearest_face(pf(&a[0]), pf(&a[1])).and_then(|_| if a.len() >= 4 { nearest_face(pf(&a[2]), pf(&a[3])) } else { Ok(()) }),
        "boundary_geometry" => boundary_geometry(pu64(&a[0])),
        "cell_area_measured" => cell_area_measured(pu64(&a[0])),
        _ => return None,
    })
}

/// C18 sentence 1: regular dodecahedron in the documented orientation (closed term: no input)
fn frame() -> Result<(), String> {
    let ax = axes();
    if ax.len() != 12 {
        return Err(format!("{} faces", ax.len()));
    }
    let tol = 1e-9;
    let mut poles = 0;
    for i in 0..12 {
        let anti = (0..12).filter(|&j| (angle(ax[i], ax[j]) - PI).abs() < tol).count();
        if anti != 1 {
            return Err(format!("face {} has {} antipodal face centres (expected exactly 1)", i, anti));
        }
        let nb = (0..12).filter(|&j| (angle(ax[i], ax[j]) - NEIGHBOUR_ANGLE).abs() < tol).count();
        if nb != 5 {
            return Err(format!("face {} has {} face centres at 63.435 degrees (expected 5)", i, nb));
        }
        if angle(ax[i], [0.0, 0.0, 1.0]) < tol {
            poles += 1;
        }
    }
    if poles != 1 {
        return Err(format!("{} faces centred on the north pole (expected 1)", poles));
    }
    // base cells are centred on the face centres; the upper ring sits at longitudes -93 + 72 k, the lower at -57 + 72 k
    let res0 = guard(|| a5::get_res0_cells())?.map_err(|e| format!("get_res0_cells: {}", e))?;
    let mut upper = vec![];
    let mut lower = vec![];
    for (i, &c) in res0.iter().enumerate() {
        let d = dec(c).ok_or_else(|| format!("res0 cell {} does not decode", hx(c)))?;
        let p = guard(|| a5::cell_to_lonlat(c))?.map_err(|e| format!("cell_to_lonlat({}): {}", hx(c), e))?;
        let o = &get_origins()[d.o as usize];
        let want = to_lon_lat(o.axis);
        let v = vec_of_lonlat(&p);
        let w = vec_of_lonlat(&want);
        if angle(v, w) > 1e-9 {
            return Err(format!("base cell {} (#{}, face {}) is centred at ({}, {}), its face centre is at ({}, {})", hx(c), i, d.o, p.longitude(), p.latitude(), want.longitude(), want.latitude()));
        }
        let phi = o.axis.phi().get();
        if phi > 0.1 && phi < PI / 2.0 {
            upper.push(p.longitude());
        } else if phi > PI / 2.0 && phi < PI - 0.1 {
            lower.push(p.longitude());
        } else if phi <= 0.1 && (p.latitude() - 90.0).abs() > 1e-9 {
            return Err(format!("polar base cell {} centred at latitude {}", hx(c), p.latitude()));
        }
    }
    let on_ring = |lons: &Vec<f64>, start: f64| -> bool {
        lons.len() == 5
            && (0..5).all(|k| {
                let want = start + 72.0 * k as f64;
                lons.iter().any(|l| {
                    let d = (l - want).rem_euclid(360.0);
                    d < 1e-9 || d > 360.0 - 1e-9
                })
            })
    };
    if !on_ring(&upper, -93.0) {
        return Err(format!("upper ring of face centres at longitudes {:?}, expected -93 + 72 k", upper));
    }
    if !on_ring(&lower, -93.0 + 36.0) {
        return Err(format!("lower ring of face centres at longitudes {:?}, expected -57 + 72 k", lower));
    }
    Ok(())
}

/// C18 sentence 2: the face chosen for a point is the one whose centre is nearest by great-circle distance
fn nearest_face(theta: f64, phi: f64) -> Result<(), String> {
    let ax = axes();
    let v = unit(theta, phi);
    let mut d: Vec<(f64, usize)> = (0..12).map(|i| (angle(v, ax[i]), i)).collect();
    d.sort_by(|a, b| a.0.partial_cmp(&b.0).unwrap());
    let margin = d[1].0 - d[0].0;
    if margin < 1e-9 {
        return Ok(()); // tie on a seam
    }
    let p = Spherical::new(Radians::new_unchecked(theta), Radians::new_unchecked(phi));
    let got = guard(|| find_nearest_origin(p).id as usize)?;
    if got != d[0].1 {
        return Err(format!(
            "find_nearest_origin(theta={}, phi={}) = face {} at {:.6} deg, but face {} is nearer at {:.6} deg",
            theta, phi, got, angle(v, ax[got]).to_degrees(), d[0].1, d[0].0.to_degrees()
        ));
    }
    if margin > 1e-6 {
        let ll = to_lon_lat(p);
        let c = guard(|| a5::lonlat_to_cell(ll, 0))?.map_err(|e| format!("lonlat_to_cell(({}, {}), 0): {}", ll.longitude(), ll.latitude(), e))?;
        let dc = dec(c).ok_or_else(|| format!("lonlat_to_cell -> {} does not decode", hx(c)))?;
        if dc.o as usize != d[0].1 {
            return Err(format!(
                "lonlat_to_cell(({}, {}), 0) = {} on face {}, but the nearest face centre is face {} ({:.6} deg vs {:.6} deg)",
                ll.longitude(), ll.latitude(), hx(c), dc.o, d[0].1, d[0].0.to_degrees(), angle(v, ax[dc.o as usize]).to_degrees()
            ));
        }
    }
    Ok(())
}

fn ring(x: u64, n: i32) -> Result<Vec<LonLat>, String> {
    guard(|| a5::cell_to_boundary(x, Some(CellToBoundaryOptions { closed_ring: false, segments: Some(n) })))?
        .map_err(|e| format!("cell_to_boundary({}, segments={}): {}", hx(x), n, e))
}

/// C11, the float sentences: finite, latitude range, counter-clockwise, centre inside, 180-degree window, stable corners
fn boundary_geometry(x: u64) -> Result<(), String> {
    let d = match dec(x) {
        Some(d) if d.r >= 0 => d,
        _ => return Ok(()),
    };
    let centre = guard(|| a5::cell_to_lonlat(x))?.map_err(|e| format!("cell_to_lonlat({}): {}", hx(x), e))?;
    let r1 = ring(x, 1)?;
    let corners = if d.r == 1 { 3 } else { 5 };
    if r1.len() != corners {
        return Err(format!("cell_to_boundary({}, segments=1) has {} points", hx(x), r1.len()));
    }
    for n in [1i32, 2, 4] {
        let rn = if n == 1 { r1.clone() } else { ring(x, n)? };
        for p in &rn {
            if !p.longitude().is_finite() || !p.latitude().is_finite() {
                return Err(format!("cell_to_boundary({}, segments={}) has a non-finite coordinate", hx(x), n));
            }
            if p.latitude().abs() > 90.0 + 1e-9 {
                return Err(format!("cell_to_boundary({}, segments={}) has latitude {}", hx(x), n, p.latitude()));
            }
        }
        if rn.len() != corners * n as usize {
            return Err(format!("cell_to_boundary({}, segments={}) has {} points", hx(x), n, rn.len()));
        }
        // corners are the same physical points for every n (the ring may start at a different point)
        let vn: Vec<V3> = rn.iter().map(vec_of_lonlat).collect();
        for k in 0..corners {
            let a = vec_of_lonlat(&r1[k]);
            if !vn.iter().any(|b| angle(a, *b).to_degrees() <= 1e-9) {
                return Err(format!(
                    "cell_to_boundary({}): corner ({}, {}) of the 1-segment ring is not a point of the {}-segment ring",
                    hx(x), r1[k].longitude(), r1[k].latitude(), n
                ));
            }
        }
        // orientation and centre containment on the sphere (valid at the poles too): every fan triangle
        // (centre, v_i, v_i+1) of a counter-clockwise ring around an interior point has positive signed area
        let cv = vec_of_lonlat(&centre);
        let m = vn.len();
        let mut total = 0.0;
        let mut neg = 0usize;
        for i in 0..m {
            let e = tri_excess(cv, vn[i], vn[(i + 1) % m]);
            total += e;
            if e < 0.0 {
                neg += 1;
            }
        }
        if !(total > 0.0) {
            return Err(format!("cell_to_boundary({}, segments={}) is not counter-clockwise (signed area {:e} sr around the reported centre)", hx(x), n, total));
        }
        if neg > 0 {
            return Err(format!(
                "cell_to_boundary({}, segments={}): reported centre ({}, {}) is not inside the ring ({} of {} edges seen clockwise from it)",
                hx(x), n, centre.longitude(), centre.latitude(), neg, m
            ));
        }
        // longitude window: unless the cell touches a pole (a pole within the cell's circumscribed circle)
        let reach = vn.iter().map(|v| angle(cv, *v)).fold(0.0, f64::max);
        let pole_dist = angle(cv, [0.0, 0.0, 1.0]).min(angle(cv, [0.0, 0.0, -1.0]));
        if pole_dist <= reach * 1.000001 + 1e-12 {
            continue;
        }
        let lo = rn.iter().map(|p| p.longitude()).fold(f64::INFINITY, f64::min);
        let hi = rn.iter().map(|p| p.longitude()).fold(f64::NEG_INFINITY, f64::max);
        if hi - lo > 180.0 {
            return Err(format!("cell_to_boundary({}, segments={}): longitudes span {:.4} degrees ({} .. {})", hx(x), n, hi - lo, lo, hi));
        }
    }
    Ok(())
}

/// C04 sentence 1: area measured from the reported boundary == sphere area / number of cells, to 1e-4 relative
fn cell_area_measured(x: u64) -> Result<(), String> {
    let d = match dec(x) {
        Some(d) if d.r >= 0 => d,
        _ => return Ok(()),
    };
    let n = if d.r <= 3 { 256 } else { 32 };
    let rn = ring(x, n)?;
    let vs: Vec<V3> = rn.iter().map(vec_of_lonlat).collect();
    let mut c = [0.0, 0.0, 0.0];
    for v in &vs {
        c = add(c, *v);
    }
    let c = normalize(c);
    let m = vs.len();
    let mut ex = 0.0;
    for i in 0..m {
        ex += tri_excess(c, vs[i], vs[(i + 1) % m]);
    }
    let frac = ex.abs() / (4.0 * PI);
    let want = 1.0 / fanout(-1, d.r) as f64;
    let rel = (frac - want).abs() / want;
    if std::env::var("A5GEO_TRACE").is_ok() {
        eprintln!("AREA {} r={} rel={:.3e}", hx(x), d.r, rel);
    }
    if !(rel <= 1e-4) {
        return Err(format!(
            "cell {} (resolution {}): area measured from its boundary ({} segments per edge) is {:e} of the sphere, expected 1/{} = {:e} (relative error {:.3e})",
            hx(x), d.r, n, frac, fanout(-1, d.r), want, rel
        ));
    }
    Ok(())
}

/// lon/lat (degrees) of the 12 face centres, 20 vertices and 30 edge midpoints of the dodecahedron frame
pub fn special_lonlats() -> Vec<(f64, f64)> {
    let ax = axes();
    let mut pts: Vec<V3> = ax.clone();
    for i in 0..12 {
        for j in (i + 1)..12 {
            if (angle(ax[i], ax[j]) - NEIGHBOUR_ANGLE).abs() < 1e-6 {
                pts.push(normalize(add(ax[i], ax[j])));
                for k in (j + 1)..12 {
                    if (angle(ax[i], ax[k]) - NEIGHBOUR_ANGLE).abs() < 1e-6 && (angle(ax[j], ax[k]) - NEIGHBOUR_ANGLE).abs() < 1e-6 {
                        pts.push(normalize(add(add(ax[i], ax[j]), ax[k])));
                    }
                }
            }
        }
    }
    pts.iter()
        .map(|p| {
            let (t, ph) = to_theta_phi(*p);
            let ll = to_lon_lat(Spherical::new(Radians::new_unchecked(t), Radians::new_unchecked(ph)));
            (ll.longitude(), ll.latitude())
        })
        .collect()
}

// ------------------------------------------------------------------------------------------------ generators
fn cell_at(lon: f64, lat: f64, r: i32) -> Option<u64> {
    guard(|| a5::lonlat_to_cell(LonLat::new(lon, lat), r)).ok().and_then(|x| x.ok())
}

pub fn generate_geo(op: &str, rng: &mut crate::ops::Rng, budget: u64, f: &mut dyn FnMut(Vec<String>) -> bool) -> bool {
    let fe = |x: f64| format!("{:e}", x);
    match op {
        "frame" => {
            f(vec![]);
        }
        "reference_geo" => {
            let path = std::env::var("A5_GEO_DUMP").unwrap_or("/verif/contracts/reference/geo_dump_v0.6.2.txt".to_string());
            if let Ok(txt) = std::fs::read_to_string(path) {
                let mut prev: Option<String> = None;
                for l in txt.lines() {
                    if l.is_empty() {
                        continue;
                    }
                    let cur = l.replace(' ', "~");
                    let args = match (&prev, l.starts_with("pt ")) {
                        (Some(p), true) => vec![cur.clone(), p.clone()],
                        _ => vec![cur.clone()],
                    };
                    if !f(args) {
                        return true;
                    }
                    prev = Some(cur);
                }
            }
        }
        "nearest_face" => {
            let ax = axes();
            // both sides of every seam: midpoint and points along the seam, a few hundredths of a degree off it
            for i in 0..12 {
                for j in (i + 1)..12 {
                    if (angle(ax[i], ax[j]) - NEIGHBOUR_ANGLE).abs() > 1e-6 {
                        continue;
                    }
                    let m = normalize(add(ax[i], ax[j]));
                    let across = normalize(sub(ax[j], ax[i]));
                    let along = normalize(cross(m, across));
                    for al in [0.0f64, 1.0, -1.0, 3.0, -3.0, 10.0, -10.0, 17.0, -17.0] {
                        let a = al.to_radians();
                        let q = normalize(add(scale(m, a.cos()), scale(along, a.sin())));
                        for off in [0.005f64, 0.02, 0.04, 0.3, 2.0] {
                            for sgn in [-1.0, 1.0] {
                                let o = (off * sgn).to_radians();
                                let p = normalize(add(scale(q, o.cos()), scale(across, o.sin())));
                                let (t, ph) = to_theta_phi(p);
                                if !f(vec![fe(t), fe(ph)]) {
                                    return true;
                                }
                            }
                        }
                    }
                }
            }
            // consecutive lookups a hair apart on opposite sides of a seam (1e-8 .. 1e-6 rad off it), both orders
            for i in 0..12 {
                for j in (i + 1)..12 {
                    if (angle(ax[i], ax[j]) - NEIGHBOUR_ANGLE).abs() > 1e-6 {
                        continue;
                    }
                    let m = normalize(add(ax[i], ax[j]));
                    let across = normalize(sub(ax[j], ax[i]));
                    let along = normalize(cross(m, across));
                    for al in [0.0f64, 2.0, -7.0] {
                        let a = al.to_radians();
                        let q = normalize(add(scale(m, a.cos()), scale(along, a.sin())));
                        for off in [1e-8f64, 1e-7, 1e-6] {
                            let p1 = normalize(add(scale(q, off.cos()), scale(across, -off.sin())));
                            let p2 = normalize(add(scale(q, off.cos()), scale(across, off.sin())));
                            let (t1, h1) = to_theta_phi(p1);
                            let (t2, h2) = to_theta_phi(p2);
                            if !f(vec![fe(t1), fe(h1), fe(t2), fe(h2)]) || !f(vec![fe(t2), fe(h2), fe(t1), fe(h1)]) {
                                return true;
                            }
                        }
                    }
                }
            }
            for i in 0..12 {
                let (t, ph) = to_theta_phi(ax[i]);
                if !f(vec![fe(t), fe(ph)]) {
                    return true;
                }
            }
            for _ in 0..budget {
                let z = (rng.below(2_000_001) as f64) / 1_000_000.0 - 1.0;
                let t = (rng.below(6_283_185) as f64) / 1_000_000.0 - PI;
                if !f(vec![fe(t), fe(z.acos())]) {
                    return true;
                }
            }
        }
        "boundary_geometry" => {
            let lons = [87.0, 86.95, 87.05, 87.3, 86.7, 88.0, 86.0, -93.0, -92.9, 0.0, 180.0, -180.0, 179.95, -179.95, 45.0, -21.0, 123.456];
            let lats = [0.5, 23.0, 27.99, 45.0, -30.0, 60.0, -60.0, 75.0, -0.5, 10.0, 85.0, -88.0, 89.5, -89.9, 89.99, 89.9999, -89.99999, 90.0, -90.0];
            for r in [0, 1, 2, 3, 5, 8, 12, 20, 29] {
                for lon in lons {
                    for lat in lats {
                        if let Some(c) = cell_at(lon, lat, r) {
                            if !f(vec![hx(c)]) {
                                return true;
                            }
                        }
                    }
                }
            }
            // cells at the face centres, vertices and edge midpoints of the frame
            for (lon, lat) in special_lonlats() {
                for r in [3, 6, 11, 17, 24, 29] {
                    if let Some(c) = cell_at(lon, lat, r) {
                        if !f(vec![hx(c)]) {
                            return true;
                        }
                    }
                }
            }
            // every cell of resolutions 0..2 (12 + 60 + 240)
            if let Ok(Ok(v)) = guard(|| a5::uncompact(&[0], 2)) {
                for c in v {
                    if !f(vec![hx(c)]) {
                        return true;
                    }
                    if let Ok(Ok(p)) = guard(|| a5::cell_to_parent(c, Some(1))) {
                        if !f(vec![hx(p)]) {
                            return true;
                        }
                    }
                }
            }
            for _ in 0..budget {
                let lon = (rng.below(3_600_000) as f64) / 10_000.0 - 180.0;
                let lat = if rng.below(8) == 0 {
                    // polar caps: up to 1e-5 degrees from a pole
                    let d = 10f64.powf(-(rng.below(6000) as f64) / 1000.0 + 1.0);
                    if rng.below(2) == 0 { 90.0 - d.min(10.0) } else { -90.0 + d.min(10.0) }
                } else {
                    (rng.below(1_700_001) as f64) / 10_000.0 - 85.0
                };
                let r = rng.below(30) as i32;
                if let Some(c) = cell_at(lon, lat, r) {
                    if !f(vec![hx(c)]) {
                        return true;
                    }
                }
            }
        }
        "cell_area_measured" => {
            // special places of the projection: around the 12 face centres, the face vertices and edge midpoints
            let ax = axes();
            let mut anchors: Vec<V3> = ax.clone();
            for i in 0..12 {
                for j in (i + 1)..12 {
                    if (angle(ax[i], ax[j]) - NEIGHBOUR_ANGLE).abs() < 1e-6 {
                        anchors.push(normalize(add(ax[i], ax[j])));
                        for k in (j + 1)..12 {
                            if (angle(ax[i], ax[k]) - NEIGHBOUR_ANGLE).abs() < 1e-6 && (angle(ax[j], ax[k]) - NEIGHBOUR_ANGLE).abs() < 1e-6 {
                                anchors.push(normalize(add(add(ax[i], ax[j]), ax[k])));
                            }
                        }
                    }
                }
            }
            for (ai, a) in anchors.iter().enumerate() {
                let (t, ph) = to_theta_phi(*a);
                let ll = to_lon_lat(Spherical::new(Radians::new_unchecked(t), Radians::new_unchecked(ph)));
                let offs: &[f64] = if ai < 12 { &[0.0, 1e-5, 1e-4, 3e-4, 1e-3, 3e-3, 1e-2, 0.1, 1.0, 10.0] } else { &[1e-4, 1e-2, 1.0] };
                for &off in offs {
                    for (dx, dy) in [(1.0, 0.0), (0.0, 1.0), (-0.7, -0.7), (0.6, -0.8)] {
                        let lat = (ll.latitude() + off * dy).max(-89.9999).min(89.9999);
                        let lon = ll.longitude() + off * dx / lat.to_radians().cos().max(0.05);
                        let rs: &[i32] = if ai < 12 { &[0, 1, 2, 6, 12, 20, 26, 27, 28, 29] } else { &[3, 9, 29] };
                        for &r in rs {
                            if let Some(c) = cell_at(lon, lat, r) {
                                if !f(vec![hx(c)]) {
                                    return true;
                                }
                            }
                        }
                    }
                }
            }
            for _ in 0..budget {
                let lon = (rng.below(3_600_000) as f64) / 10_000.0 - 180.0;
                let lat = (rng.below(1_800_001) as f64) / 10_000.0 - 90.0;
                let r = rng.below(30) as i32;
                if let Some(c) = cell_at(lon, lat, r) {
                    if !f(vec![hx(c)]) {
                        return true;
                    }
                }
            }
        }
        _ => return false,
    }
    true
}
