//! a5replay -- executable form of the top-level postconditions, run against the REAL a5 crate (/repo).
//!
//!   a5replay run <op> <args...>            -> prints "PASS" or "FAIL <reason>", exit 0 / 1
//!   a5replay search <op> <seed> <budget>   -> prints "FAIL <op> <args...> :: <reason>" (exit 1) or "NONE tried=<n>" (exit 0)
//!   a5replay ops                           -> list of ops
//!
//! It can only CONFIRM a violation (find a failing input); it never clears one.
mod ops;
mod spec;

use std::panic;

fn main() {
    let args: Vec<String> = std::env::args().skip(1).collect();
    if args.is_empty() {
        eprintln!("usage: a5replay run|search|ops ...");
        std::process::exit(2);
    }
    panic::set_hook(Box::new(|_| {}));
    match args[0].as_str() {
        "dump-origins" => {
            for o in a5::core::origin::get_origins() {
                println!("{} fq={} orient={:?}", o.id, o.first_quintant, o.orientation);
            }
        }
        "ops" => {
            for o in ops::OPS {
                println!("{}", o);
            }
        }
        "run" => {
            let op = &args[1];
            match ops::run_op(op, &args[2..]) {
                Ok(()) => println!("PASS"),
                Err(e) => {
                    println!("FAIL {}", e);
                    std::process::exit(1);
                }
            }
        }
        "search" => {
            let op = &args[1];
            let seed: u64 = args.get(2).map(|s| s.parse().unwrap()).unwrap_or(1);
            let budget: u64 = args.get(3).map(|s| s.parse().unwrap()).unwrap_or(20000);
            let mut tried = 0u64;
            let mut rng = ops::Rng::new(seed);
            let mut found = None;
            ops::generate(op, &mut rng, budget, &mut |a: Vec<String>| {
                tried += 1;
                if std::env::var("A5REPLAY_TRACE").is_ok() {
                    eprintln!("TRY {} {}", op, a.join(" "));
                }
                if let Err(e) = ops::run_op(op, &a) {
                    found = Some((a, e));
                    return false;
                }
                true
            });
            match found {
                Some((a, e)) => {
                    println!("FAIL {} {} :: {}", op, a.join(" "), e);
                    std::process::exit(1);
                }
                None => println!("NONE tried={}", tried),
            }
        }
        _ => {
            eprintln!("unknown command");
            std::process::exit(2);
        }
    }
}
