//! a5replay -- executable form of the top-level postconditions, run against the REAL a5 crate (/repo).
//!
//!   a5replay run <op> <args...>            -> prints "PASS" or "FAIL <reason>", exit 0 / 1
//!   a5replay search <op> <seed> <budget>   -> prints "FAIL <op> <args...> :: <reason>" (exit 1) or "NONE tried=<n>" (exit 0)
//!   a5replay ops                           -> list of ops
//!
//! It can only CONFIRM a violation (find a failing input); it never clears one.
mod geo;
mod ops;
mod spec;

use std::panic;

fn main() {
    let args: Vec<String> = std::env::args().skip(1).collect();
    if args.is_empty() {
        eprintln!("usage: a5replay run|search|ops ...");
        std::process::exit(2);
    }
    panic::set_hook(Box::new(|_| {}));
    match args[0].as_str() {
        "dump-ref" => {
            // reference dump (run ONCE against the pinned reference release to freeze /verif/contracts/reference)
            use a5::core::hilbert::{s_to_anchor, Orientation};
            use a5::core::origin::{get_origins, quintant_to_segment, segment_to_quintant};
            let b = |x: f64| format!("0x{:016x}", x.to_bits());
            for o in get_origins() {
                println!(
                    "origin {} fq={} orient={:?} quat=[{},{},{},{}] inv=[{},{},{},{}] theta={} phi={} angle={}",
                    o.id, o.first_quintant, o.orientation,
                    b(o.quat[0]), b(o.quat[1]), b(o.quat[2]), b(o.quat[3]),
                    b(o.inverse_quat[0]), b(o.inverse_quat[1]), b(o.inverse_quat[2]), b(o.inverse_quat[3]),
                    b(o.axis.theta().get()), b(o.axis.phi().get()), b(o.angle.get())
                );
            }
            for o in get_origins() {
                for q in 0..5usize {
                    let (seg, or1) = quintant_to_segment(q, o);
                    let (q2, or2) = segment_to_quintant(seg, o);
                    println!("relabel {} {} -> seg={} {:?} ; back q={} {:?}", o.id, q, seg, or1, q2, or2);
                }
            }
            let ors = [Orientation::UV, Orientation::VU, Orientation::UW, Orientation::WU, Orientation::VW, Orientation::WV];
            for n in 1..=3usize {
                for (oi, o) in ors.iter().enumerate() {
                    for s in 0..(1u64 << (2 * n)) {
                        let a = s_to_anchor(s, n, *o);
                        println!("anchor {} {} {} k={} f=[{},{}] x={} y={}", n, oi, s, a.k, a.flips[0], a.flips[1], b(a.offset.x()), b(a.offset.y()));
                    }
                }
            }
            for r in 0..=30 {
                println!("area {} {} cells={}", r, b(a5::cell_area(r)), a5::get_num_cells(r));
            }
        }
        "dump-geo" => {
            // float-pipeline reference dump (run ONCE against the pinned reference release to freeze
            // /verif/contracts/reference/geo_dump_v0.6.2.txt): ID of sample points, centre, corners, centre -> ID
            geo::dump_geo();
        }
        "dump-origins" => {
            for o in a5::core::origin::get_origins() {
                println!("{} fq={} orient={:?}", o.id, o.first_quintant, o.orientation);
            }
        }
        "ops" => {
            for o in ops::OPS {
                println!("{}", o);
            }
        }
        "run" => {
            let op = &args[1];
            // `run <op> <args> --after <args of the preceding input>`: the preceding input of the search sequence is
            // replayed first (result ignored), so that a witness that depends on the previous call reproduces
            let cut = args.iter().position(|a| a == "--after");
            if let Some(c) = cut {
                let _ = ops::run_op(op, &args[c + 1..]);
            }
            let end = cut.unwrap_or(args.len());
            match ops::run_op(op, &args[2..end]) {
                Ok(()) => println!("PASS"),
                Err(e) => {
                    println!("FAIL {}", e);
                    std::process::exit(1);
                }
            }
        }
        "search" => {
            let op = &args[1];
            let seed: u64 = args.get(2).map(|s| s.parse().unwrap()).unwrap_or(1);
            let budget: u64 = args.get(3).map(|s| s.parse().unwrap()).unwrap_or(20000);
            let mut tried = 0u64;
            let mut rng = ops::Rng::new(seed);
            let mut found = None;
            let mut prev: Option<Vec<String>> = None;
            ops::generate(op, &mut rng, budget, &mut |a: Vec<String>| {
                tried += 1;
                if std::env::var("A5REPLAY_TRACE").is_ok() {
                    eprintln!("TRY {} {}", op, a.join(" "));
                }
                if let Err(e) = ops::run_op(op, &a) {
                    found = Some((a, e, prev.clone()));
                    return false;
                }
                prev = Some(a);
                true
            });
            match found {
                Some((a, e, prev)) => {
                    // if the input fails on its own the predecessor is irrelevant; otherwise name it
                    let alone = std::process::Command::new(std::env::current_exe().unwrap()).arg("run").arg(op).args(&a).output();
                    let fails_alone = matches!(&alone, Ok(o) if o.status.code() == Some(1));
                    if let (false, Some(p)) = (fails_alone, &prev) {
                        println!("AFTER {}", p.join(" "));
                    }
                    println!("FAIL {} {} :: {}", op, a.join(" "), e);
                    std::process::exit(1);
                }
                None => println!("NONE tried={}", tried),
            }
        }
        _ => {
            eprintln!("unknown command");
            std::process::exit(2);
        }
    }
}
