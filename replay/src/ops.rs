//! ops: each op = one call of the real a5 API + the executable form of its contract's postcondition.
use crate::spec::*;
use a5::core::serialization as ser;
use a5::A5Cell;
use std::panic::{catch_unwind, AssertUnwindSafe};

pub const OPS: &[&str] = &[
    "get_resolution", "deserialize", "serialize", "roundtrip", "cell_to_parent", "cell_to_children",
    "get_res0_cells", "is_first_child", "get_stride", "get_num_cells", "get_num_children", "uncompact",
    "compact_cover", "compact_max", "compact_total", "uncompact_total", "order", "order_children", "reference", "purity", "proj_history", "curve_roundtrip", "hex", "hex_parse",
    "lonlat_to_cell", "cell_to_lonlat", "cell_to_boundary", "cell_area",
    "pentagon_centre", "frame", "nearest_face", "boundary_geometry", "cell_area_measured", "reference_geo",
];

pub struct Rng(u64);
impl Rng {
    pub fn new(seed: u64) -> Self {
        Rng(seed.wrapping_mul(0x9E3779B97F4A7C15) ^ 0xD1B54A32D192ED03)
    }
    pub fn next(&mut self) -> u64 {
        let mut x = self.0;
        x ^= x << 13;
        x ^= x >> 7;
        x ^= x << 17;
        self.0 = x;
        x.wrapping_mul(0x2545F4914F6CDD1D)
    }
    pub fn below(&mut self, n: u64) -> u64 {
        if n == 0 { 0 } else { self.next() % n }
    }
}

fn guard<T>(f: impl FnOnce() -> T) -> Result<T, String> {
    catch_unwind(AssertUnwindSafe(f)).map_err(|e| {
        let msg = if let Some(s) = e.downcast_ref::<String>() {
            s.clone()
        } else if let Some(s) = e.downcast_ref::<&str>() {
            s.to_string()
        } else {
            "?".to_string()
        };
        format!("panic: {}", msg)
    })
}

fn pu64(s: &str) -> u64 {
    if let Some(h) = s.strip_prefix("0x") { u64::from_str_radix(h, 16).unwrap() } else { s.parse().unwrap() }
}
fn pi32(s: &str) -> i32 {
    s.parse().unwrap()
}
fn popt(s: &str) -> Option<i32> {
    if s == "none" { None } else { Some(pi32(s)) }
}
fn plist(s: &str) -> Vec<u64> {
    if s.is_empty() || s == "-" { vec![] } else { s.split(',').map(pu64).collect() }
}
fn hx(x: u64) -> String {
    format!("0x{:x}", x)
}
fn flist(v: &[u64]) -> String {
    if v.is_empty() { "-".into() } else { v.iter().map(|x| hx(*x)).collect::<Vec<_>>().join(",") }
}
fn to_cell(c: &A5Cell) -> Cell {
    Cell { o: c.origin_id, seg: c.segment, s: c.s, r: c.resolution }
}
fn from_cell(c: Cell) -> A5Cell {
    A5Cell { origin_id: c.o, segment: c.seg, s: c.s, resolution: c.r }
}

const MAX_FANOUT: u128 = 65536; // 4^8, the scope bound of C07/C09/C14

pub fn run_op(op: &str, a: &[String]) -> Result<(), String> {
    if let Some(r) = crate::geo::run_geo(op, a) {
        return r;
    }
    match op {
        "get_resolution" => {
            let x = pu64(&a[0]);
            let got = guard(|| a5::get_resolution(x))?;
            if got != res_of(x) {
                return Err(format!("get_resolution({}) = {} but the layout says {}", hx(x), got, res_of(x)));
            }
            Ok(())
        }
        "deserialize" => {
            let x = pu64(&a[0]);
            let got = guard(|| ser::deserialize(x))?;
            match (got, dec(x)) {
                (Ok(c), Some(d)) => {
                    if to_cell(&c) != d {
                        return Err(format!("deserialize({}) = {:?}, layout says {:?}", hx(x), c, d));
                    }
                    Ok(())
                }
                (Err(_), None) => Ok(()),
                (Ok(c), None) => Err(format!("deserialize({}) = {:?} but the bit pattern is not a cell", hx(x), c)),
                (Err(e), Some(d)) => Err(format!("deserialize({}) = Err({}) but layout decodes to {:?}", hx(x), e, d)),
            }
        }
        "serialize" => {
            let c = Cell { o: pu64(&a[0]) as u8, seg: pu64(&a[1]) as usize, s: pu64(&a[2]), r: pi32(&a[3]) };
            if c.o >= 12 || c.seg >= 5 {
                return Ok(()); // outside the struct invariant
            }
            let got = guard(|| ser::serialize(&from_cell(c)))?;
            let defined = (-1..=29).contains(&c.r) && (c.r < 2 || c.s < s_limit(c.r));
            let n = if c.r == -1 {
                WORLD
            } else {
                Cell { seg: if c.r == 0 { 0 } else { c.seg }, s: if c.r < 2 { 0 } else { c.s }, ..c }
            };
            match got {
                Ok(v) if defined && v == enc(n) => Ok(()),
                Ok(v) if defined => Err(format!("serialize({:?}) = {} but the layout says {}", c, hx(v), hx(enc(n)))),
                Ok(v) => Err(format!("serialize({:?}) = Ok({}) for a cell description that must be rejected", c, hx(v))),
                Err(_) if !defined => Ok(()),
                Err(e) => Err(format!("serialize({:?}) = Err({}) for a valid cell", c, e)),
            }
        }
        "roundtrip" => {
            let c = Cell { o: pu64(&a[0]) as u8, seg: pu64(&a[1]) as usize, s: pu64(&a[2]), r: pi32(&a[3]) };
            if !valid(c) {
                return Ok(());
            }
            let x = guard(|| ser::serialize(&from_cell(c)))?.map_err(|e| format!("serialize({:?}) = Err({})", c, e))?;
            let d = guard(|| ser::deserialize(x))?.map_err(|e| format!("deserialize(serialize({:?})) = Err({})", c, e))?;
            if to_cell(&d) != c {
                return Err(format!("deserialize(serialize({:?})) = {:?}", c, d));
            }
            let r = guard(|| a5::get_resolution(x))?;
            if r != c.r {
                return Err(format!("get_resolution(serialize({:?})) = {}", c, r));
            }
            if x != enc(c) {
                return Err(format!("serialize({:?}) = {} but the documented layout gives {}", c, hx(x), hx(enc(c))));
            }
            Ok(())
        }
        "cell_to_parent" => {
            let x = pu64(&a[0]);
            let pr = popt(&a[1]);
            let got = guard(|| a5::cell_to_parent(x, pr))?;
            let exp: Option<u64> = match dec(x) {
                None => None,
                Some(d) => {
                    let t = pr.map(|v| v as i64).unwrap_or(d.r as i64 - 1);
                    if t < -1 || t > d.r as i64 { None } else { Some(enc(anc(d, t as i32))) }
                }
            };
            match (got, exp) {
                (Ok(v), Some(e)) if v == e => Ok(()),
                (Err(_), None) => Ok(()),
                (g, e) => Err(format!("cell_to_parent({}, {:?}) = {:?}, expected {:?}", hx(x), pr, g.map(hx), e.map(hx))),
            }
        }
        "cell_to_children" => {
            let x = pu64(&a[0]);
            let cr = popt(&a[1]);
            let d = dec(x);
            // scope: skip calls whose honest fan-out exceeds 4^8
            if let Some(d) = d {
                let t = cr.map(|v| v as i64).unwrap_or(d.r as i64 + 1);
                if t >= d.r as i64 && t <= 29 && fanout(d.r, t as i32) > MAX_FANOUT {
                    return Ok(());
                }
            }
            let got = guard(|| a5::cell_to_children(x, cr))?;
            let exp: Option<Vec<u64>> = match d {
                None => None,
                Some(d) => {
                    let t = cr.map(|v| v as i64).unwrap_or(d.r as i64 + 1);
                    if t < d.r as i64 || t > 29 { None } else { Some(kids(d, t as i32).into_iter().map(enc).collect()) }
                }
            };
            match (got, exp) {
                (Ok(v), Some(e)) => {
                    // the property fixes WHICH cells come back (distinct, right number, right resolution, right ancestor),
                    // not the order in which one cell's children are listed: compare as sorted lists
                    let (mut vs, mut es) = (v.clone(), e.clone());
                    vs.sort_unstable();
                    es.sort_unstable();
                    if vs == es {
                        Ok(())
                    } else {
                        let k = vs.iter().zip(es.iter()).position(|(p, q)| p != q);
                        Err(format!(
                            "cell_to_children({}, {:?}): {} children, expected {}; as sorted lists they first differ at {:?}: got {:?} expected {:?}",
                            hx(x), cr, v.len(), e.len(), k, k.map(|k| hx(vs[k])), k.map(|k| hx(es[k]))
                        ))
                    }
                }
                (Err(_), None) => Ok(()),
                (Ok(v), None) => Err(format!("cell_to_children({}, {:?}) = Ok({} cells), expected Err", hx(x), cr, v.len())),
                (Err(e), Some(ex)) => Err(format!("cell_to_children({}, {:?}) = Err({}), expected {} cells", hx(x), cr, e, ex.len())),
            }
        }
        "get_res0_cells" => {
            let got = guard(a5::get_res0_cells)?.map_err(|e| format!("get_res0_cells() = Err({})", e))?;
            let exp: Vec<u64> = kids(WORLD, 0).into_iter().map(enc).collect();
let (mut g, mut e) = (got.clone(), exp.clone());
            g.sort_unstable();
            e.sort_unstable();
            if g != e { Err(format!("get_res0_cells() = {}", flist(&got))) } else { Ok(()) }
        }
        "is_first_child" => {
            // for a canonical cell x of resolution r >= 0: is_first_child(x, Some(r) | None) <=> x is kids(parent)[0]
            let x = pu64(&a[0]);
            if !canonical(x) || res_of(x) < 0 {
                return Ok(());
            }
            let d = dec(x).unwrap();
            let first = kids(parent1(d), d.r).into_iter().map(enc).min().unwrap() == x;
            for opt in [Some(d.r), None] {
                let got = guard(|| ser::is_first_child(x, opt))?;
                if got != first {
                    return Err(format!("is_first_child({}, {:?}) = {}, hierarchy says {}", hx(x), opt, got, first));
                }
            }
            Ok(())
        }
        "get_stride" => {
            // consecutive siblings of resolution r differ by get_stride(r)
            let x = pu64(&a[0]);
            if !canonical(x) || res_of(x) < 0 {
                return Ok(());
            }
            let d = dec(x).unwrap();
            let mut sibs: Vec<u64> = kids(parent1(d), d.r).into_iter().map(enc).collect();
            sibs.sort_unstable();
            let st = guard(|| ser::get_stride(d.r))?;
            for w in sibs.windows(2) {
                if w[1].wrapping_sub(w[0]) != st {
                    return Err(format!("get_stride({}) = {} but siblings {} {} differ by {}", d.r, hx(st), hx(w[0]), hx(w[1]), hx(w[1].wrapping_sub(w[0]))));
                }
            }
            Ok(())
        }
        "get_num_cells" => {
            let r = pi32(&a[0]);
            let got = guard(|| a5::get_num_cells(r))?;
            if (0..=27).contains(&r) {
                let exp = fanout(-1, r) as u64;
                if got != exp {
                    return Err(format!("get_num_cells({}) = {}, expected {}", r, got, exp));
                }
            } else if r == 28 || r == 29 {
                // JS-rounded literal: within 1e-15 relative of the exact count
                let exp = fanout(-1, r);
                let diff = if (got as u128) > exp { got as u128 - exp } else { exp - got as u128 };
                if diff * 1_000_000_000_000_000 > exp {
                    return Err(format!("get_num_cells({}) = {}, exact count {}", r, got, exp));
                }
            }
            // what is reported for resolutions outside 0..29 is not part of C04 (only that the call returns: guard)
            Ok(())
        }
        "get_num_children" => {
            let p = pi32(&a[0]);
            let c = pi32(&a[1]);
            let got = guard(|| a5::core::cell_info::get_num_children(p, c))?;
            if (-1..=29).contains(&p) && (p..=27).contains(&c) {
                let exp = fanout(p, c);
                if exp <= u64::MAX as u128 && got as u128 != exp {
                    return Err(format!("get_num_children({}, {}) = {}, hierarchy fan-out is {}", p, c, got, exp));
                }
            }
            if c < p && got != 0 {
                return Err(format!("get_num_children({}, {}) = {}", p, c, got));
            }
            Ok(())
        }
        "uncompact" => {
            // canonical inputs only (C09)
            let l = plist(&a[0]);
            let t = pi32(&a[1]);
            if !l.iter().all(|x| canonical(*x)) {
                return Ok(());
            }
            let finer = l.iter().any(|x| res_of(*x) > t);
            if !finer {
                let mut total: u128 = 0;
                for x in &l {
                    total += fanout(res_of(*x), t.min(29));
                }
                if total > MAX_FANOUT || t > 29 {
                    return Ok(());
                }
            }
            let got = guard(|| a5::uncompact(&l, t))?;
            match got {
                Err(_) if finer => Ok(()),
                Ok(v) if finer => Err(format!("uncompact({}, {}) = Ok({} cells) although an input is finer than the target", flist(&l), t, v.len())),
                Err(e) => Err(format!("uncompact({}, {}) = Err({})", flist(&l), t, e)),
                Ok(v) => {
                    // per input cell, in input order, its descendants - the order INSIDE one input's block is not part of
                    // the property: each block is compared as a sorted list
                    let mut exp = Vec::new();
                    let mut vn = v.clone();
                    let mut pos = 0usize;
                    for x in &l {
                        let mut blk: Vec<u64> = kids(dec(*x).unwrap(), t).into_iter().map(enc).collect();
                        blk.sort_unstable();
                        if pos + blk.len() <= vn.len() {
                            vn[pos..pos + blk.len()].sort_unstable();
                        }
                        pos += blk.len();
                        exp.extend(blk);
                    }
                    if vn == exp {
                        Ok(())
                    } else {
                        let k = vn.iter().zip(exp.iter()).position(|(p, q)| p != q);
                        Err(format!("uncompact({}, {}): {} cells, expected {}; with each input's block sorted they first differ at {:?}", flist(&l), t, v.len(), exp.len(), k))
                    }
                }
            }
        }
        "uncompact_total" => {
            // any u64s, any i32: returns without panic (fan-out bounded by construction of the generator)
            let l = plist(&a[0]);
            let t = pi32(&a[1]);
            let mut total: u128 = 0;
            for x in &l {
                let r = res_of(*x);
                if t >= r && t <= 30 {
                    total += fanout(r, t);
                }
            }
            if total > MAX_FANOUT {
                return Ok(());
            }
            // any u64s, any i32: returns; an Ok result consists of canonical IDs of the target resolution; a bit
            // pattern that is not a cell is rejected
            match guard(|| a5::uncompact(&l, t))? {
                Ok(v) => {
                    if let Some(bad) = v.iter().find(|x| !canonical(**x) || res_of(**x) != t) {
                        return Err(format!("uncompact({}, {}) returned {} which is not a canonical ID of resolution {}", flist(&l), t, hx(*bad), t));
                    }
                    if let Some(bad) = l.iter().find(|x| dec(**x).is_none()) {
                        return Err(format!("uncompact({}, {}) = Ok although {} is not a cell", flist(&l), t, hx(*bad)));
                    }
                    Ok(())
                }
                Err(_) => Ok(()),
            }
        }
        "compact_total" => {
            // any u64s: returns; Ok only if every input decodes, and then every output is a canonical ID
            let l = plist(&a[0]);
            match guard(|| a5::compact(&l))? {
                Ok(v) => {
                    if let Some(bad) = l.iter().find(|x| dec(**x).is_none()) {
                        return Err(format!("compact({}) = Ok although {} is not a cell", flist(&l), hx(*bad)));
                    }
                    if let Some(bad) = v.iter().find(|x| !canonical(**x)) {
                        return Err(format!("compact({}) returned the non-canonical ID {}", flist(&l), hx(*bad)));
                    }
                    Ok(())
                }
                Err(e) => {
                    if l.iter().all(|x| dec(*x).is_some()) { Err(format!("compact({}) = Err({}) although every input is a cell", flist(&l), e)) } else { Ok(()) }
                }
            }
        }
        "compact_cover" | "compact_max" => {
            // canonical inputs; compact_cover = C08 (cover, duplicates, order independence),
            // compact_max = C10 (maximal / idempotent / canonical on non-overlapping inputs)
            let l = plist(&a[0]);
            if a.len() > 1 {
                // optional second argument: IDs on which other public calls are made first (results ignored).  compact's
                // result must not depend on them (a memo inside a callee keyed too coarsely shows only so: seeded change C08-11)
                for p in plist(&a[1]) {
                    let _ = guard(|| a5::cell_to_parent(p, None));
                    let _ = guard(|| a5::cell_to_children(p, None));
                    let _ = guard(|| a5::get_resolution(p));
                }
            }
            if !l.iter().all(|x| canonical(*x)) {
                // not an input of this property.  The call is still made (result ignored), so that the NEXT input of the
                // search sequence sees whatever state a rejected call leaves behind (seeded change C10-11)
                let _ = guard(|| a5::compact(&l));
                return Ok(());
            }
            let cells: Vec<Cell> = l.iter().map(|x| dec(*x).unwrap()).collect();
            let out = guard(|| a5::compact(&l))?.map_err(|e| format!("compact({}) = Err({})", flist(&l), e))?;
            if !out.iter().all(|x| canonical(*x)) {
                return Err(format!("compact({}) returned a non-canonical ID: {}", flist(&l), flist(&out)));
            }
            let oc: Vec<Cell> = out.iter().map(|x| dec(*x).unwrap()).collect();
            let nf_in = normal_form(&cells);
            if op == "compact_cover" {
                // C08 cover preserved  <=>  same normal form
                let nf_out = normal_form(&oc);
                if nf_in != nf_out {
                    return Err(format!("compact({}) = {} covers a different set of cells", flist(&l), flist(&out)));
                }
                let mut sorted = out.clone();
                sorted.sort_unstable();
                sorted.dedup();
                if sorted.len() != out.len() {
                    return Err(format!("compact({}) = {} contains a duplicate", flist(&l), flist(&out)));
                }
                let mut rev: Vec<u64> = l.iter().rev().copied().collect();
                rev.extend(l.iter().take(3));
                let out2 = guard(|| a5::compact(&rev))?.map_err(|e| format!("compact(permuted) = Err({})", e))?;
                if out2 != out {
                    return Err(format!("compact({}) depends on input order/multiplicity: {} vs {}", flist(&l), flist(&out), flist(&out2)));
                }
            } else if is_antichain(&cells) {
                let as_set: std::collections::BTreeSet<Cell> = oc.iter().copied().collect();
                if as_set != nf_in {
                    return Err(format!("compact({}) = {} is not maximal: the canonical form has {} cells", flist(&l), flist(&out), nf_in.len()));
                }
                let mut again = guard(|| a5::compact(&out))?.map_err(|e| format!("compact(compact(..)) = Err({})", e))?;
                again.sort_unstable();
                let mut o2 = out.clone();
                o2.sort_unstable();
                if again != o2 {
                    return Err(format!("compact is not idempotent on {}", flist(&out)));
                }
            }
            Ok(())
        }
        "order" => {
            // C20: two canonical cells a < b of the same resolution r >= 2: ancestors at 1..r ordered
            let x = pu64(&a[0]);
            let y = pu64(&a[1]);
            if !canonical(x) || !canonical(y) || res_of(x) != res_of(y) || res_of(x) < 2 || x >= y {
                return Ok(());
            }
            let r = res_of(x);
            for k in 1..=r {
                let px = guard(|| a5::cell_to_parent(x, Some(k)))?.map_err(|e| e)?;
                let py = guard(|| a5::cell_to_parent(y, Some(k)))?.map_err(|e| e)?;
                if px > py {
                    return Err(format!("{} < {} but ancestors at {} are {} > {}", hx(x), hx(y), k, hx(px), hx(py)));
                }
            }
            Ok(())
        }
        "order_children" => {
            // C20 via the children listing: for canonical a < b of equal resolution >= 2 every listed
            // descendant of a precedes every listed descendant of b
            let x = pu64(&a[0]);
            let y = pu64(&a[1]);
            if !canonical(x) || !canonical(y) || res_of(x) != res_of(y) || res_of(x) < 2 || res_of(x) > 27 || x >= y {
                return Ok(());
            }
            let t = res_of(x) + 2;
            let kx = guard(|| a5::cell_to_children(x, Some(t)))?.map_err(|e| e)?;
            let ky = guard(|| a5::cell_to_children(y, Some(t)))?.map_err(|e| e)?;
            let mx = kx.iter().max().copied().unwrap_or(0);
            let my = ky.iter().min().copied().unwrap_or(u64::MAX);
            if mx >= my {
                return Err(format!("{} < {} but a listed descendant {} of the first is not below a listed descendant {} of the second", hx(x), hx(y), hx(mx), hx(my)));
            }
            Ok(())
        }
        "curve_roundtrip" | "pentagon_centre" => {
            // C17 (bounded stand-in for deep curve levels): the probe nudged strictly inside the lattice triangle of
            // position s (the nudge of the repository's own test) is located back at s; depth 1..=29
            use a5::core::hilbert::{ij_to_s, s_to_anchor, Orientation, NO, YES};
            let n = pu64(&a[0]) as usize;
            let oi = pu64(&a[1]) as usize;
            let sv = pu64(&a[2]);
            let ors = [Orientation::UV, Orientation::VU, Orientation::UW, Orientation::WU, Orientation::VW, Orientation::WV];
            if n < 1 || n > 29 || sv >= (1u64 << (2 * n)) {
                return Ok(());
            }
            let o = ors[oi % 6];
            if op == "pentagon_centre" {
                // C17, the sentence about pentagons (bounded, sampled): the centre of the pentagon at position s lies in the
                // quintant's triangle and is located back at s
                use a5::core::coordinate_transforms::face_to_ij;
                use a5::core::tiling::{get_pentagon_vertices, get_quintant_vertices};
                let got = guard(|| {
                    let an = s_to_anchor(sv, n, o);
                    let shape = get_pentagon_vertices(n as i32, 0, &an);
                    let c = shape.get_center();
                    let inside = get_quintant_vertices(0).contains_point(c);
                    // the locator works in the lattice of depth n: face coordinates scaled by 2^n (as lonlat_to_estimate does)
                    let k = 2.0_f64.powi(n as i32);
                    let scaled = a5::coordinate_systems::Face::new(c.x() * k, c.y() * k);
                    (inside, ij_to_s(face_to_ij(scaled), n, o), c.x(), c.y())
                })?;
                if !(got.0 > 0.0) {
                    return Err(format!("depth {} orientation {:?}: centre ({:e}, {:e}) of the pentagon at position {} lies outside the quintant triangle", n, o, got.2, got.3, sv));
                }
                if got.1 != sv {
                    return Err(format!("depth {} orientation {:?}: the centre of the pentagon at position {} is located at {}", n, o, sv, got.1));
                }
                return Ok(());
            }
            let got = guard(|| {
                let an = s_to_anchor(sv, n, o);
                let (fx, fy) = (an.flips[0], an.flips[1]);
                let (dx, dy) = if fx == NO && fy == NO { (0.1, 0.1) } else if fx == YES && fy == NO { (0.1, -0.2) } else if fx == NO && fy == YES { (-0.1, 0.2) } else { (-0.1, -0.1) };
                let p = a5::coordinate_systems::IJ::new(an.offset.x() + dx, an.offset.y() + dy);
                (an.k, ij_to_s(p, n, o))
            })?;
            if got.1 != sv {
                return Err(format!("depth {} orientation {:?}: position {} is located back at {}", n, o, sv, got.1));
            }
            if got.0 > 3 {
                return Err(format!("anchor digit k = {}", got.0));
            }
            Ok(())
        }
        "proj_history" => {
            // C13 (bounded replay of the memo contracts): DodecahedronProjection::inverse (public) returns the same answer from
            // a fresh object and from one that has served other calls - for EVERY origin id, also ids outside the face table
            // (defect F18: ids 12..23 aliased the slots of reflected triangles).  args: x, y in micro-units + 2_000_000, id
            use a5::coordinate_systems::Face;
            use a5::projections::dodecahedron::DodecahedronProjection;
            let x = (pu64(&a[0]) as f64 - 2_000_000.0) / 1_000_000.0;
            let y = (pu64(&a[1]) as f64 - 2_000_000.0) / 1_000_000.0;
            let id = pu64(&a[2]) as u8;
            let show = |r: &Result<a5::coordinate_systems::Spherical, String>| match r {
                Ok(sp) => format!("Ok({:?})", sp),
                Err(_) => "Err".to_string(),
            };
            let first = guard(|| {
                let mut d = DodecahedronProjection::new().unwrap();
                show(&d.inverse(Face::new(x, y), id))
            })?;
            let later = guard(|| {
                let mut d = DodecahedronProjection::new().unwrap();
                for o in 0..12u8 {
                    for k in 0..10 {
                        let g = (k as f64 + 0.5) * std::f64::consts::PI / 5.0;
                        for rho in [0.3, 0.75] {
                            let _ = d.inverse(Face::new(rho * g.cos(), rho * g.sin()), o);
                        }
                    }
                }
                show(&d.inverse(Face::new(x, y), id))
            })?;
            if first != later {
                return Err(format!("DodecahedronProjection::inverse(Face({}, {}), {}) = {} as the first call of a fresh projection, {} after other calls", x, y, id, first, later));
            }
            Ok(())
        }
        "purity" => {
            // C13 (bounded stand-in): the result of a public call is the same bit pattern whether it is the first
            // call of a fresh thread, follows other calls in the same thread (two different orders), or runs in
            // a fresh thread after other threads have used the library
            let seed = pu64(&a[0]);
            let n = pu64(&a[1]) as usize;
            let mut rng = Rng::new(seed);
            #[derive(Clone)]
            enum Call { L2C(f64, f64, i32), C2L(u64), C2B(u64, i32), NC(i32), AR(i32) }
            fn run(c: &Call) -> String {
                let b = |x: f64| format!("{:016x}", x.to_bits());
                match c {
                    Call::L2C(lo, la, r) => format!("{:?}", a5::lonlat_to_cell(a5::LonLat::new(*lo, *la), *r)),
                    Call::C2L(x) => match a5::cell_to_lonlat(*x) { Ok(p) => format!("{} {}", b(p.longitude()), b(p.latitude())), Err(e) => e },
                    Call::C2B(x, seg) => match a5::cell_to_boundary(*x, Some(a5::core::cell::CellToBoundaryOptions { closed_ring: true, segments: Some(*seg) })) {
                        Ok(v) => v.iter().map(|p| format!("{}{}", b(p.longitude()), b(p.latitude()))).collect::<Vec<_>>().join(","),
                        Err(e) => e,
                    },
                    Call::NC(r) => format!("{}", a5::get_num_cells(*r)),
                    Call::AR(r) => b(a5::cell_area(*r)),
                }
            }
            let mut calls: Vec<Call> = vec![];
            for _ in 0..n {
                let lon = (rng.below(3_600_000) as f64) / 10_000.0 - 180.0;
                let lat = (rng.below(1_800_001) as f64) / 10_000.0 - 90.0;
                let r = [1, 3, 5, 9, 20][rng.below(5) as usize];
                calls.push(Call::L2C(lon, lat, r));
                if let Ok(x) = a5::lonlat_to_cell(a5::LonLat::new(lon, lat), r.min(6)) {
                    calls.push(Call::C2L(x));
                    calls.push(Call::C2B(x, 1 + rng.below(3) as i32));
                }
            }
            // points straddling the seams between neighbouring faces (where nearest-face selection is delicate)
            {
                use a5::core::coordinate_transforms::{to_cartesian, to_lon_lat, to_spherical};
                let origins = a5::core::origin::get_origins();
                for i in 0..origins.len() {
                    for j in 0..origins.len() {
                        if i == j {
                            continue;
                        }
                        let p = to_cartesian(origins[i].axis);
                        let q = to_cartesian(origins[j].axis);
                        let dot = p.x() * q.x() + p.y() * q.y() + p.z() * q.z();
                        if dot < 0.3 || dot > 0.6 {
                            continue; // neighbours are 63.4 degrees apart (cos = 0.447)
                        }
                        for k in -6i32..=6 {
                            let t = 0.5 + (k as f64) * 0.00008;
                            let (x, y, z) = (p.x() * (1.0 - t) + q.x() * t, p.y() * (1.0 - t) + q.y() * t, p.z() * (1.0 - t) + q.z() * t);
                            let nrm = (x * x + y * y + z * z).sqrt();
                            let ll = to_lon_lat(to_spherical(a5::coordinate_systems::Cartesian::new(x / nrm, y / nrm, z / nrm)));
                            calls.push(Call::L2C(ll.longitude(), ll.latitude(), 20));
                        }
                    }
                }
            }
            // back-to-back calls on cells whose curve position differs in ONE bit (high, middle, low): memo keys that
            // truncate or hash the position collide exactly on such pairs
            for r in [29, 28, 26, 20, 9] {
                for _ in 0..2 {
                    let lon = (rng.below(3_600_000) as f64) / 10_000.0 - 180.0;
                    let lat = (rng.below(1_600_001) as f64) / 10_000.0 - 80.0;
                    if let Ok(x) = a5::lonlat_to_cell(a5::LonLat::new(lon, lat), r) {
                        if let Some(c) = dec(x) {
                            let nb = 2 * (r - 1);
                            for k in [nb - 1, nb - 2, nb - 9, nb / 2, 0] {
                                if k < 0 || s_limit(r) <= (1u64 << k) {
                                    continue;
                                }
                                let y = enc(Cell { s: c.s ^ (1u64 << k), ..c });
                                calls.push(Call::C2L(x));
                                calls.push(Call::C2L(y));
                                calls.push(Call::C2B(x, 1));
                                calls.push(Call::C2B(y, 1));
                            }
                        }
                    }
                }
            }
            for r in [19, 2, 27, 3, 0, 29, 12] {
                calls.push(Call::NC(r));
                calls.push(Call::AR(r));
            }
            let alone: Vec<String> = calls.iter().map(|c| { let c = c.clone(); std::thread::spawn(move || run(&c)).join().unwrap_or("panic".into()) }).collect();
            let order1: Vec<usize> = (0..calls.len()).collect();
            let mut order2 = order1.clone();
            order2.reverse();
            let mut order3 = order1.clone();
            shuffle(&mut order3, &mut rng);
            for (name, ord) in [("in call order", order1), ("in reverse order", order2), ("in shuffled order", order3)] {
                let cs = calls.clone();
                let o = ord.clone();
                let got: Vec<(usize, String)> = std::thread::spawn(move || o.iter().map(|i| (*i, run(&cs[*i]))).collect()).join().map_err(|_| "panic in sequence".to_string())?;
                for (i, g) in got {
                    if g != alone[i] {
                        return Err(format!("call #{} gives a different answer after other calls in the same thread ({}) than as the first call of a fresh thread: {} vs {}", i, name, &g[..g.len().min(60)], &alone[i][..alone[i].len().min(60)]));
                    }
                }
            }
            // several threads using the library AT THE SAME TIME, each walking the calls in its own order (the schedule is
            // whatever the OS gives: exploration, not a proof): every answer equals the fresh-thread answer
            {
                let shared = std::sync::Arc::new((calls.clone(), alone.clone()));
                let mut hs = vec![];
                for t in 0..6usize {
                    let sh = shared.clone();
                    let mut ord: Vec<usize> = (0..calls.len()).collect();
                    if t % 2 == 1 {
                        ord.reverse();
                    }
                    if t >= 2 {
                        let mut r2 = Rng::new(seed ^ (0x9E37 * (t as u64 + 1)));
                        shuffle(&mut ord, &mut r2);
                    }
                    hs.push(std::thread::spawn(move || -> Option<(usize, String)> {
                        for i in ord {
                            let g = run(&sh.0[i]);
                            if g != sh.1[i] {
                                return Some((i, g));
                            }
                        }
                        None
                    }));
                }
                for (t, h) in hs.into_iter().enumerate() {
                    match h.join() {
                        Err(_) => return Err(format!("panic in thread {} while {} threads use the library concurrently", t, 6)),
                        Ok(Some((i, g))) => {
                            return Err(format!(
                                "call #{} gives a different answer while 6 threads use the library concurrently (thread {}) than as the first call of a fresh thread: {} vs {}",
                                i, t, &g[..g.len().min(60)], &alone[i][..alone[i].len().min(60)]
                            ))
                        }
                        Ok(None) => {}
                    }
                }
            }
            // fresh threads again, after the threads above have run (process-wide state)
            for (i, c) in calls.iter().enumerate() {
                let c = c.clone();
                let g = std::thread::spawn(move || run(&c)).join().unwrap_or("panic".into());
                if g != alone[i] {
                    return Err(format!("call #{} in a fresh thread gives a different answer after other threads used the library", i));
                }
            }
            Ok(())
        }
        "reference" => {
            // one line of the frozen reference dump (contracts/reference/ref_dump_v0.6.2.txt, spaces as '~'):
            // the real code must reproduce it
            use a5::core::hilbert::{s_to_anchor, Orientation};
            use a5::core::origin::{get_origins, quintant_to_segment, segment_to_quintant};
            let line = a[0].replace('~', " ");
            let b = |x: f64| format!("0x{:016x}", x.to_bits());
            let got = guard(|| {
                let t: Vec<&str> = line.split(' ').collect();
                match t[0] {
                    "origin" => {
                        let o = &get_origins()[t[1].parse::<usize>().unwrap()];
                        format!(
                            "origin {} fq={} orient={:?} quat=[{},{},{},{}] inv=[{},{},{},{}] theta={} phi={} angle={}",
                            o.id, o.first_quintant, o.orientation,
                            b(o.quat[0]), b(o.quat[1]), b(o.quat[2]), b(o.quat[3]),
                            b(o.inverse_quat[0]), b(o.inverse_quat[1]), b(o.inverse_quat[2]), b(o.inverse_quat[3]),
                            b(o.axis.theta().get()), b(o.axis.phi().get()), b(o.angle.get())
                        )
                    }
                    "relabel" => {
                        let o = &get_origins()[t[1].parse::<usize>().unwrap()];
                        let q: usize = t[2].parse().unwrap();
                        let (seg, or1) = quintant_to_segment(q, o);
                        let (q2, or2) = segment_to_quintant(seg, o);
                        format!("relabel {} {} -> seg={} {:?} ; back q={} {:?}", o.id, q, seg, or1, q2, or2)
                    }
                    "anchor" => {
                        let ors = [Orientation::UV, Orientation::VU, Orientation::UW, Orientation::WU, Orientation::VW, Orientation::WV];
                        let n: usize = t[1].parse().unwrap();
                        let oi: usize = t[2].parse().unwrap();
                        let sv: u64 = t[3].parse().unwrap();
                        let an = s_to_anchor(sv, n, ors[oi]);
                        format!("anchor {} {} {} k={} f=[{},{}] x={} y={}", n, oi, sv, an.k, an.flips[0], an.flips[1], b(an.offset.x()), b(an.offset.y()))
                    }
                    "area" => {
                        let r: i32 = t[1].parse().unwrap();
                        format!("area {} {} cells={}", r, b(a5::cell_area(r)), a5::get_num_cells(r))
                    }
                    _ => line.clone(),
                }
            })?;
            if got != line {
                return Err(format!("reference release: `{}`  this tree: `{}`", line, got));
            }
            Ok(())
        }
        "hex" => {
            let x = pu64(&a[0]);
            let s = guard(|| a5::u64_to_hex(x))?;
            let ok_form = !s.is_empty()
                && s.len() <= 16
                && s.chars().all(|c| c.is_ascii_digit() || ('a'..='f').contains(&c))
                && (s == "0" || !s.starts_with('0'));
            if !ok_form {
                return Err(format!("u64_to_hex({}) = {:?} is not 1-16 lower-case digits without prefix/leading zeros", x, s));
            }
            match guard(|| a5::hex_to_u64(&s))? {
                Ok(v) if v == x => Ok(()),
                o => Err(format!("hex_to_u64(u64_to_hex({})) = {:?}", x, o)),
            }
        }
        "hex_parse" => {
            // arbitrary string given as hex-encoded UTF-8 bytes
            let bytes: Vec<u8> = (0..a[0].len() / 2).map(|i| u8::from_str_radix(&a[0][2 * i..2 * i + 2], 16).unwrap()).collect();
            let s = match String::from_utf8(bytes) {
                Ok(s) => s,
                Err(_) => return Ok(()),
            };
            // exactly what C05 says about parsing: never panics (guard); the empty string and digit strings wider than
            // 64 bits give an error, not a truncated value; a canonical string (the format of some value) parses to that
            // value; and an Ok for a plain digit string is the value of those digits.  Whether signs, prefixes, upper
            // case or other characters are accepted is not part of the property.
            let got = guard(|| a5::hex_to_u64(&s))?;
            let all_hex = !s.is_empty() && s.chars().all(|c| c.is_ascii_hexdigit());
            let sig = s.trim_start_matches('0');
            let fits = sig.len() <= 16;
            let canonical_form = all_hex && fits && (s == "0" || !s.starts_with('0')) && !s.chars().any(|c| c.is_ascii_uppercase());
            let value = || {
                let mut e: u64 = 0;
                for c in sig.chars() {
                    e = (e << 4) | c.to_digit(16).unwrap() as u64;
                }
                e
            };
            match got {
                Ok(v) => {
                    if s.is_empty() {
                        return Err(format!("hex_to_u64(\"\") = Ok({})", v));
                    }
                    if all_hex && !fits {
                        return Err(format!("hex_to_u64({:?}) = Ok({}) for a digit string wider than 64 bits", s, v));
                    }
                    if all_hex && value() != v {
                        return Err(format!("hex_to_u64({:?}) = {} expected {}", s, v, value()));
                    }
                    Ok(())
                }
                Err(_) => {
                    if canonical_form { Err(format!("hex_to_u64({:?}) = Err for the canonical form of {}", s, value())) } else { Ok(()) }
                }
            }
        }
        "lonlat_to_cell" => {
            let lon: f64 = a[0].parse().unwrap();
            let lat: f64 = a[1].parse().unwrap();
            let r = pi32(&a[2]);
            let got = guard(|| a5::lonlat_to_cell(a5::LonLat::new(lon, lat), r))?;
            match got {
                Ok(x) => {
                    if !(-1..=29).contains(&r) {
                        return Err(format!("lonlat_to_cell(({}, {}), {}) = Ok({}) for an unsupported resolution", lon, lat, r, hx(x)));
                    }
                    if !canonical(x) || res_of(x) != r {
                        return Err(format!("lonlat_to_cell(({}, {}), {}) = {} which is not a canonical ID of resolution {}", lon, lat, r, hx(x), r));
                    }
                    Ok(())
                }
                Err(e) => {
                    if (-1..=29).contains(&r) && lat.abs() <= 90.0 {
                        Err(format!("lonlat_to_cell(({}, {}), {}) = Err({})", lon, lat, r, e))
                    } else {
                        Ok(())
                    }
                }
            }
        }
        "cell_to_lonlat" => {
            let x = pu64(&a[0]);
            let got = guard(|| a5::cell_to_lonlat(x))?;
            match (got, dec(x)) {
                (Ok(p), Some(_)) => {
                    if p.longitude().is_finite() && p.latitude().is_finite() { Ok(()) } else { Err(format!("cell_to_lonlat({}) not finite", hx(x))) }
                }
                (Err(_), None) => Ok(()),
                (Ok(_), None) => Err(format!("cell_to_lonlat({}) = Ok for a bit pattern that is not a cell", hx(x))),
                (Err(e), Some(_)) => Err(format!("cell_to_lonlat({}) = Err({})", hx(x), e)),
            }
        }
        "cell_to_boundary" => {
            let x = pu64(&a[0]);
            let seg = popt(&a[1]);
            let closed = a[2] == "1";
            let got = guard(|| a5::cell_to_boundary(x, Some(a5::core::cell::CellToBoundaryOptions { closed_ring: closed, segments: seg })))?;
            match (got, dec(x)) {
                (Ok(v), Some(d)) => {
                    if d.r == -1 {
                        return if v.is_empty() { Ok(()) } else { Err(format!("cell_to_boundary(world alias {}) = {} points", hx(x), v.len())) };
                    }
                    let n = match seg {
                        Some(n) if n >= 1 => n as usize,
                        Some(_) => return Ok(()),
                        None => std::cmp::max(1, 1usize << (6 - d.r).max(0)),
                    };
                    let k = if d.r == 1 { 3 } else { 5 };
                    let want = k * n + if closed { 1 } else { 0 };
                    if v.len() != want {
                        return Err(format!("cell_to_boundary({}, {:?}, closed={}) has {} points, expected {}", hx(x), seg, closed, v.len(), want));
                    }
                    if closed && (v[0].longitude() != v[v.len() - 1].longitude() || v[0].latitude() != v[v.len() - 1].latitude()) {
                        return Err(format!("cell_to_boundary({}) closed ring does not repeat its first point", hx(x)));
                    }
                    Ok(())
                }
                (Err(_), None) => Ok(()),
                (Ok(_), None) => Err(format!("cell_to_boundary({}) = Ok for a bit pattern that is not a cell", hx(x))),
                (Err(e), Some(_)) => Err(format!("cell_to_boundary({}) = Err({})", hx(x), e)),
            }
        }
        "cell_area" => {
            let r = pi32(&a[0]);
            let got = guard(|| a5::cell_area(r))?;
            // outside 0..29 the property only asks that the call returns (guard above)
            if (0..=29).contains(&r) {
                if !got.is_finite() || got <= 0.0 {
                    return Err(format!("cell_area({}) = {}", r, got));
                }
                let n = fanout(-1, r) as f64;
                let q = 510065624779439.1_f64 / n;
                if ((got - q) / q).abs() > 1e-12 {
                    return Err(format!("cell_area({}) = {} but authalic area / cell count = {}", r, got, q));
                }
            }
            Ok(())
        }
        _ => Err(format!("unknown op {}", op)),
    }
}

// ------------------------------------------------------------------------------------------------
// generators: boundary values named in the contracts first, then pseudo-random
// ------------------------------------------------------------------------------------------------
fn boundary_s(r: i32, rng: &mut Rng) -> Vec<u64> {
    let lim = s_limit(r);
    let mut v = vec![0, lim - 1, lim / 2, lim / 4, lim.saturating_sub(2), 1 % lim, 3 % lim, 5 % lim];
    v.push(0x5555_5555_5555_5555 % lim);
    v.push(0xAAAA_AAAA_AAAA_AAAA % lim);
    v.push(rng.below(lim));
    v.push(rng.below(lim));
    v.sort_unstable();
    v.dedup();
    v
}

pub fn rand_cell(rng: &mut Rng, max_r: i32) -> Cell {
    let r = rng.below((max_r + 2) as u64) as i32 - 1;
    if r == -1 {
        return WORLD;
    }
    let o = rng.below(12) as u8;
    let seg = if r == 0 { 0 } else { rng.below(5) as usize };
    let lim = s_limit(r);
    let s = match rng.below(4) {
        0 => 0,
        1 => lim - 1,
        _ => rng.below(lim),
    };
    Cell { o, seg, s, r }
}

fn interesting_ids(rng: &mut Rng, n: u64, f: &mut dyn FnMut(u64) -> bool) -> bool {
    // every resolution x face/quintant corner x boundary positions
    for r in -1..=29 {
        for o in [0u8, 1, 5, 11] {
            for seg in [0usize, 2, 4] {
                for s in boundary_s(r, rng) {
                    let c = if r == -1 { WORLD } else { Cell { o, seg: if r == 0 { 0 } else { seg }, s, r } };
                    let x = enc(c);
                    for y in [x, x | 1, x | (rng.next() & ((1u64 << marker_pos(r.max(0))) - 1)), x ^ (1u64 << 63), x | (1u64 << 57)] {
                        if !f(y) {
                            return false;
                        }
                    }
                }
            }
        }
    }
    // aliases of the world cell, marker-only patterns, face codes 60..63
    for k in 58..64 {
        if !f(1u64 << k) || !f((1u64 << k) | 1) {
            return false;
        }
    }
    for code in [59u64, 60, 61, 62, 63, 12, 13] {
        for p in [57u32, 56, 55, 1, 3] {
            if !f((code << 58) | (1u64 << p)) {
                return false;
            }
        }
    }
    for _ in 0..n {
        let y = match rng.below(4) {
            0 => rng.next(),
            1 => rng.next() & rng.next(),
            2 => enc(rand_cell(rng, 29)),
            _ => enc(rand_cell(rng, 29)) | (rng.next() & 0xff),
        };
        if !f(y) {
            return false;
        }
    }
    true
}

/// a random antichain by recursive subdivision and deletion from a random root
fn rand_antichain(rng: &mut Rng, max_cells: usize) -> Vec<Cell> {
    let root = rand_cell(rng, 6);
    let mut out = vec![];
    let mut stack = vec![root];
    let p_split = 30 + rng.below(60);
    let p_drop = rng.below(25);
    while let Some(c) = stack.pop() {
        if out.len() + stack.len() >= max_cells || c.r >= 29 {
            out.push(c);
            continue;
        }
        if rng.below(100) < p_split && c.r < root.r + 5 {
            for k in kids(c, c.r + 1) {
                stack.push(k);
            }
        } else if rng.below(100) >= p_drop {
            out.push(c);
        }
    }
    out
}

fn shuffle<T>(v: &mut Vec<T>, rng: &mut Rng) {
    for i in (1..v.len()).rev() {
        let j = rng.below(i as u64 + 1) as usize;
        v.swap(i, j);
    }
}

pub fn generate(op: &str, rng: &mut Rng, budget: u64, f: &mut dyn FnMut(Vec<String>) -> bool) {
    if crate::geo::generate_geo(op, rng, budget, f) {
        return;
    }
    match op {
        "get_resolution" | "deserialize" | "is_first_child" | "get_stride" | "hex" | "cell_to_lonlat" => {
            interesting_ids(rng, budget, &mut |x| f(vec![hx(x)]));
        }
        "serialize" | "roundtrip" => {
            for r in [-3i32, -2, -1, 0, 1, 2, 3, 15, 28, 29, 30, 31, i32::MIN, i32::MAX] {
                for o in 0..12u64 {
                    for seg in 0..5u64 {
                        let mut ss = if (2..=29).contains(&r) { boundary_s(r, rng) } else { vec![0, 1] };
                        if (2..=29).contains(&r) {
                            ss.push(s_limit(r));
                            ss.push(u64::MAX);
                        }
                        for s in ss {
                            if !f(vec![o.to_string(), seg.to_string(), s.to_string(), r.to_string()]) {
                                return;
                            }
                        }
                    }
                }
            }
            for _ in 0..budget {
                let r = rng.below(30) as i32;
                let c = rand_cell(rng, 29);
                let _ = r;
                if !f(vec![c.o.to_string(), c.seg.to_string(), c.s.to_string(), c.r.to_string()]) {
                    return;
                }
            }
        }
        "cell_to_parent" | "cell_to_children" => {
            let mut targets: Vec<String> = vec!["none".into()];
            for t in [-3, -2, -1, 0, 1, 2, 3, 4, 10, 28, 29, 30, 31, i32::MIN, i32::MAX] {
                targets.push(t.to_string());
            }
            let mut r2 = Rng::new(rng.next());
            let cont = interesting_ids(rng, budget / 8, &mut |x| {
                let rx = res_of(x);
                for t in &targets {
                    if !f(vec![hx(x), t.clone()]) {
                        return false;
                    }
                }
                for d in [1, 2, 3] {
                    let t = if op == "cell_to_parent" { rx - d } else { rx + d };
                    if !f(vec![hx(x), t.to_string()]) {
                        return false;
                    }
                }
                let t = r2.below(31) as i32 - 1;
                f(vec![hx(x), t.to_string()])
            });
            let _ = cont;
        }
        "get_res0_cells" => {
            f(vec![]);
        }
        "get_num_cells" | "cell_area" => {
            // no particular order of resolutions may be assumed by the library: descending, random jumps, ascending
            for r in (-5..=40).rev() {
                if !f(vec![r.to_string()]) {
                    return;
                }
            }
            for _ in 0..200 {
                let r = rng.below(36) as i32 - 3;
                if !f(vec![r.to_string()]) {
                    return;
                }
            }
            for r in -5..=40 {
                if !f(vec![r.to_string()]) {
                    return;
                }
            }
            for r in [i32::MIN, i32::MIN + 1, i32::MAX, i32::MAX - 1, 63, 64, 65, 100] {
                if !f(vec![r.to_string()]) {
                    return;
                }
            }
        }
        "get_num_children" => {
            for p in -3..=32 {
                for c in -3..=32 {
                    if !f(vec![p.to_string(), c.to_string()]) {
                        return;
                    }
                }
            }
        }
        "order" | "order_children" => {
            for _ in 0..budget {
                let a = rand_cell(rng, 29);
                if a.r < 2 {
                    continue;
                }
                let lim = s_limit(a.r);
                let b = match rng.below(4) {
                    0 => Cell { s: (a.s + 1) % lim, ..a },
                    1 => Cell { s: (a.s | 3).min(lim - 1), ..a },
                    2 => Cell { seg: rng.below(5) as usize, o: rng.below(12) as u8, ..a },
                    _ => Cell { s: rng.below(lim), ..a },
                };
                let (x, y) = (enc(a), enc(b));
                let (x, y) = if x < y { (x, y) } else { (y, x) };
                if !f(vec![hx(x), hx(y)]) {
                    return;
                }
            }
        }
        "uncompact" | "uncompact_total" => {
            // every ordered pair / triple over a palette of coarse and fine cells x nearby targets
            let palette: Vec<u64> = vec![
                0,
                enc(Cell { o: 0, seg: 0, s: 0, r: 0 }),
                enc(Cell { o: 7, seg: 0, s: 0, r: 0 }),
                enc(Cell { o: 3, seg: 2, s: 0, r: 1 }),
                enc(Cell { o: 11, seg: 4, s: 3, r: 2 }),
                enc(Cell { o: 5, seg: 1, s: 9, r: 3 }),
                enc(Cell { o: 2, seg: 0, s: (1u64 << 52) - 1, r: 27 }),
                enc(Cell { o: 9, seg: 3, s: 12345, r: 29 }),
            ];
            for a in &palette {
                for b in &palette {
                    for third in [None, Some(palette[3]), Some(palette[0])] {
                        let mut l = vec![*a, *b];
                        if let Some(c) = third {
                            l.push(c);
                        }
                        let maxr = l.iter().map(|x| res_of(*x)).max().unwrap();
                        let minr = l.iter().map(|x| res_of(*x)).min().unwrap();
                        for t in [minr - 1, minr, maxr - 1, maxr, maxr + 1, maxr + 2] {
                            if !f(vec![flist(&l), t.to_string()]) {
                                return;
                            }
                        }
                    }
                }
            }
            for x in &palette {
                for t in -2..=31 {
                    if !f(vec![flist(&[*x]), t.to_string()]) {
                        return;
                    }
                }
            }
            if !f(vec!["-".into(), "-1".into()]) || !f(vec!["-".into(), "5".into()]) {
                return;
            }
            for _ in 0..budget {
                let n = 1 + rng.below(5) as usize;
                let mut l = vec![];
                for _ in 0..n {
                    let c = rand_cell(rng, 29);
                    let mut x = enc(c);
                    if op == "uncompact_total" && rng.below(3) == 0 {
                        x = match rng.below(3) {
                            0 => rng.next(),
                            1 => x | 1,
                            _ => (60 + rng.below(4)) << 58 | (1u64 << (57 - rng.below(3))),
                        };
                    }
                    l.push(x);
                }
                let maxr = l.iter().map(|x| res_of(*x)).max().unwrap();
                let t = match rng.below(6) {
                    0 => maxr,
                    1 => maxr + 1,
                    2 => maxr + 2,
                    3 => maxr - 1,
                    4 if op == "uncompact_total" => [i32::MIN, i32::MIN + 5, i32::MAX, 30, 31, -2][rng.below(6) as usize],
                    _ => (maxr + rng.below(4) as i32).min(29),
                };
                if !f(vec![flist(&l), t.to_string()]) {
                    return;
                }
            }
        }
        "compact_total" => {
            // non-canonical patterns that look like sibling groups near u64::MAX (face codes 60..63)
            for m in [56u32, 57, 55, 1] {
                for fill in [u64::MAX, u64::MAX - 1, 0xFFFF_FFFF_0000_0000] {
                    let mut l: Vec<u64> = (60u64..64).map(|c| (c << 58) | (1u64 << m)).collect();
                    for k in 0..8u64 {
                        l.push(fill - 2 * k);
                    }
                    if !f(vec![flist(&l)]) {
                        return;
                    }
                    l.truncate(4);
                    l.push(fill);
                    if !f(vec![flist(&l)]) {
                        return;
                    }
                }
            }
            for _ in 0..budget {
                let n = rng.below(16) as usize;
                let mut l = vec![];
                let base = rng.next();
                for k in 0..n {
                    let x = match rng.below(5) {
                        0 => rng.next(),
                        1 => enc(rand_cell(rng, 29)),
                        2 => ((60 + rng.below(4)) << 58) | (1u64 << 57),
                        3 => (base & 0xfc00_0000_0000_0000) | (1u64 << 57) | ((k as u64) << 58),
                        _ => 0xFE00_0000_0000_0000u64.wrapping_add(2 * k as u64),
                    };
                    l.push(x);
                }
                if !f(vec![flist(&l)]) {
                    return;
                }
            }
        }
        "compact_cover" | "compact_max" => {
            // Generated inputs stay inside the class on which the contracts are proved: no resolution-0
            // (and no world) cell among the inputs.  Inputs mixing base cells with other faces' quintants
            // are the recorded findings (known_findings.json) and are replayed separately.
            // Boundary values first: at EVERY resolution 0..=29 one complete sibling group (must merge), the same group
            // with one member missing (must stay), and a complete two-level subtree - a per-level table or a special case
            // that is wrong for one level only (e.g. the finest) shows only here (seeded change C10-10)
            for r in 0..=29i32 {
                for rep in 0..3 {
                    let parent = if r == 0 {
                        WORLD
                    } else {
                        let lim = s_limit(r - 1);
                        Cell {
                            o: rng.below(12) as u8,
                            seg: if r == 1 { 0 } else { rng.below(5) as usize },
                            s: match rep { 0 => 0, 1 => lim - 1, _ => rng.below(lim) },
                            r: r - 1,
                        }
                    };
                    let group = kids(parent, r);
                    let mut inputs: Vec<Vec<Cell>> = vec![group.clone()];
                    let mut partial = group.clone();
                    partial.remove(rng.below(group.len() as u64) as usize);
                    inputs.push(partial);
                    if r < 29 && r >= 1 {
                        inputs.push(kids(parent, r + 1));
                    }
                    for cells in inputs {
                        let mut l: Vec<u64> = cells.iter().map(|c| enc(*c)).collect();
                        shuffle(&mut l, rng);
                        if !f(vec![flist(&l)]) {
                            return;
                        }
                    }
                }
            }
            for it in 0..budget {
                let cap = 40 + rng.below(200) as usize;
                let mut cells = rand_antichain(rng, cap);
                // split coarse cells so that no input has resolution < 1
                loop {
                    let mut next = vec![];
                    let mut any = false;
                    for c in &cells {
                        if c.r < 1 {
                            any = true;
                            next.extend(kids(*c, c.r + 1));
                        } else {
                            next.push(*c);
                        }
                    }
                    cells = next;
                    if !any {
                        break;
                    }
                }
                match it % 6 {
                    0 => {}
                    4 | 5 => {
                        // faces given as a base cell, as quintants (some subdivided), partially, or not at all
                        cells.clear();
                        let all = rng.below(4) == 0;
                        for o in 0..12u8 {
                            match if all { rng.below(2) } else { rng.below(4) } {
                                0 => cells.push(Cell { o, seg: 0, s: 0, r: 0 }),
                                1 => {
                                    for seg in 0..5 {
                                        let q = Cell { o, seg, s: 0, r: 1 };
                                        if rng.below(3) == 0 { cells.extend(kids(q, 2)); } else { cells.push(q); }
                                    }
                                }
                                2 => cells.push(Cell { o, seg: rng.below(5) as usize, s: 0, r: 1 }),
                                _ => {}
                            }
                        }
                        if it % 6 == 5 && op == "compact_cover" {
                            // overlapping: add base cells of faces that are also present as quintants, and the world cell
                            for _ in 0..(1 + rng.below(3)) {
                                cells.push(Cell { o: rng.below(12) as u8, seg: 0, s: 0, r: 0 });
                            }
                            if rng.below(4) == 0 { cells.push(WORLD); }
                        }
                    }
                    1 => {
                        // overlapping ancestors / descendants (resolution >= 1 only)
                        let n = cells.len();
                        for _ in 0..(1 + rng.below(4)) {
                            if n == 0 {
                                break;
                            }
                            let c = cells[rng.below(n as u64) as usize];
                            if rng.below(2) == 0 && c.r > 1 {
                                cells.push(anc(c, (c.r - 1 - rng.below(2) as i32).max(1)));
                            } else if c.r < 28 {
                                let k = kids(c, c.r + 1);
                                cells.push(k[rng.below(k.len() as u64) as usize]);
                            }
                        }
                    }
                    2 => {
                        // whole faces given as quintants (merge to base cells, all 12 to the world cell)
                        cells.clear();
                        let all = rng.below(4) == 0;
                        for o in 0..12u8 {
                            if all || rng.below(2) == 0 {
                                for seg in 0..5 {
                                    let q = Cell { o, seg, s: 0, r: 1 };
                                    if rng.below(3) == 0 {
                                        cells.extend(kids(q, 2));
                                    } else {
                                        cells.push(q);
                                    }
                                }
                            } else if rng.below(2) == 0 {
                                cells.push(Cell { o, seg: rng.below(5) as usize, s: 0, r: 1 });
                            }
                        }
                    }
                    _ => {
                        // complete subtree: compacts to its root after several passes
                        let root = rand_cell(rng, 10);
                        let depth = 1 + rng.below(3) as i32;
                        cells = kids(root, (root.r + depth).max(1).min(29));
                    }
                }
                if op == "compact_max" && !is_antichain(&cells) {
                    continue;
                }
                let mut l: Vec<u64> = cells.iter().map(|c| enc(*c)).collect();
                if op == "compact_cover" && rng.below(2) == 0 && !l.is_empty() {
                    // duplicates at non-adjacent positions
                    for _ in 0..(1 + rng.below(3)) {
                        let x = l[rng.below(l.len() as u64) as usize];
                        l.push(x);
                    }
                }
                if it % 7 == 3 && !cells.is_empty() && cells[0].r >= 1 {
                    // a REJECTED call first: the other members of the first cell's sibling group, then a bit pattern that is
                    // not a cell.  Nothing of it may leak into the call that follows (history independence of the result)
                    let me = cells[0];
                    let mut poison: Vec<u64> = kids(anc(me, me.r - 1), me.r).iter().filter(|k| **k != me).map(|k| enc(*k)).collect();
                    let not_a_cell = 0xfe00_0000_0000_0000u64;
                    if dec(not_a_cell).is_none() {
                        poison.push(not_a_cell);
                        if !f(vec![flist(&poison)]) {
                            return;
                        }
                    }
                }
                shuffle(&mut l, rng);
                if it % 5 == 2 && !l.is_empty() {
                    // the same input after other calls on IDs that look like its own: neighbouring IDs at the stride of the
                    // cell's level (the other members of its group and of the neighbouring groups), the same position on the
                    // neighbouring faces, its parent and its first child
                    let mut pre: Vec<u64> = vec![];
                    for &x in l.iter().take(3) {
                        let r = res_of(x);
                        let stride = if r < 2 { 1u64 << 58 } else { 1u64 << (marker_pos(r) + 1) };
                        for j in 1..=5u64 {
                            pre.push(x.wrapping_sub(j.wrapping_mul(stride)));
                            pre.push(x.wrapping_add(j.wrapping_mul(stride)));
                        }
                        if let Some(c) = dec(x) {
                            if c.r >= 0 {
                                pre.push(enc(Cell { o: (c.o + 1) % 12, ..c }));
                                pre.push(enc(Cell { o: (c.o + 11) % 12, ..c }));
                                pre.push(enc(anc(c, c.r - 1)));
                            }
                            if c.r < 29 {
                                pre.push(enc(kids(c, c.r + 1)[0]));
                            }
                        }
                    }
                    shuffle(&mut pre, rng);
                    if !f(vec![flist(&l), flist(&pre)]) {
                        return;
                    }
                }
                if !f(vec![flist(&l)]) {
                    return;
                }
                // the same input in ascending ID order (what an ordered index scan hands over): a shortcut that trusts
                // "already sorted" input shows only here
                if it % 2 == 0 {
                    l.sort_unstable();
                    if !f(vec![flist(&l)]) {
                        return;
                    }
                }
            }
            // cells spaced by the stride of ANOTHER level: `first + j * stride(t)` for a few j - what a sibling test that uses
            // the wrong stride would take for a complete group (e.g. the first resolution-2 cell of consecutive quintants)
            for _ in 0..(budget / 4).max(200) {
                let r = 1 + rng.below(6) as i32;
                let lim = s_limit(r);
                let first = Cell {
                    o: rng.below(12) as u8,
                    seg: rng.below(5) as usize,
                    s: if rng.below(2) == 0 { 0 } else { rng.below(lim) & !3 },
                    r,
                };
                let x = enc(first);
                let t = (r + rng.below(3) as i32 - 1).max(0);
                let stride = if t < 2 { 1u64 << 58 } else { 1u64 << (marker_pos(t) + 1) };
                let n = [4u64, 5, 12, 3][rng.below(4) as usize];
                let mut cells: Vec<Cell> = vec![];
                for j in 0..n {
                    if let Some(y) = x.checked_add(j.wrapping_mul(stride)) {
                        if let Some(c) = dec(y) {
                            if c.r == r && canonical(y) {
                                cells.push(c);
                            }
                        }
                    }
                }
                cells.sort();
                cells.dedup();
                if cells.len() < 2 || !is_antichain(&cells) {
                    continue;
                }
                let mut l: Vec<u64> = cells.iter().map(|c| enc(*c)).collect();
                if rng.below(2) == 0 {
                    shuffle(&mut l, rng);
                }
                if !f(vec![flist(&l)]) {
                    return;
                }
            }
        }
        "curve_roundtrip" | "pentagon_centre" => {
            // digit-pattern families at every depth 1..=29 x 6 orientations, then random positions
            for n in 1..=29u64 {
                let lim = 1u64 << (2 * n);
                let mut fam: Vec<u64> = vec![0, lim - 1, 0x5555_5555_5555_5555 % lim, 0xAAAA_AAAA_AAAA_AAAA % lim,
                                             0x3333_3333_3333_3333 % lim, 0xCCCC_CCCC_CCCC_CCCC % lim, 0x6666_6666_6666_6666 % lim, 0x9999_9999_9999_9999 % lim];
                for k in 0..n {
                    for d in 1..4u64 {
                        fam.push(d << (2 * k));                       // single digit
                        fam.push((d << (2 * k)).wrapping_sub(1) % lim);      // run of 3s below it
                        fam.push(lim - 1 - (d << (2 * k)) % lim);
                    }
                }
                for d in 1..4u64 {
                    fam.push((0x5555_5555_5555_5555u64.wrapping_mul(d)) % lim); // one repeated digit
                }
                fam.sort_unstable();
                fam.dedup();
                for o in 0..6u64 {
                    for sv in &fam {
                        if !f(vec![n.to_string(), o.to_string(), sv.to_string()]) {
                            return;
                        }
                    }
                }
                // the same positions again with the orientation changing fastest: consecutive calls that share the
                // position and the depth but not the orientation (a memo keyed on too little shows here)
                for sv in &fam {
                    for o in [0u64, 1, 2, 3, 4, 5, 4, 2, 0, 3, 1, 5] {
                        if !f(vec![n.to_string(), o.to_string(), sv.to_string()]) {
                            return;
                        }
                    }
                }
            }
            for _ in 0..budget {
                let n = 1 + rng.below(29);
                let sv = rng.below(1u64 << (2 * n));
                if !f(vec![n.to_string(), rng.below(6).to_string(), sv.to_string()]) {
                    return;
                }
            }
        }
        "proj_history" => {
            for id in (0..=40u64).chain([63, 127, 128, 200, 255]) {
                for k in 0..10u64 {
                    let g = (k as f64 + 0.37) * std::f64::consts::PI / 5.0;
                    for rho in [0.05f64, 0.3, 0.6, 0.75] {
                        let x = (rho * g.cos() * 1e6 + 2e6).round() as u64;
                        let y = (rho * g.sin() * 1e6 + 2e6).round() as u64;
                        if !f(vec![x.to_string(), y.to_string(), id.to_string()]) {
                            return;
                        }
                    }
                }
            }
            let _ = budget;
        }
        "purity" => {
            for k in 0..(1 + budget / 400) {
                if !f(vec![(rng.next() % 1_000_000).to_string(), (3000 + 1000 * k).to_string()]) {
                    return;
                }
            }
        }
        "reference" => {
            let path = std::env::var("A5_REF_DUMP").unwrap_or("/verif/contracts/reference/ref_dump_v0.6.2.txt".to_string());
            if let Ok(txt) = std::fs::read_to_string(path) {
                for l in txt.lines() {
                    if !l.is_empty() && !f(vec![l.replace(' ', "~")]) {
                        return;
                    }
                }
            }
        }
        "hex_parse" => {
            let alphabet: Vec<char> = "0123456789abcdefABCDEFgG+-_ x\u{e9}\u{20ac}\u{1f600}".chars().collect();
            let fixed = [
                "", "0", "+", "-1", "+f", "ffffffffffffffff", "10000000000000000", "00000000000000000001", "fffffffffffffffff", "0x10", " 1", "1 ",
                "\u{e9}", "+-1", "\u{20ac}\u{20ac}\u{20ac}", "1\u{e9}2345678", "12345678\u{e9}", "\u{e9}12345678", "\u{e9}\u{e9}\u{e9}\u{e9}\u{e9}\u{e9}\u{e9}\u{e9}\u{e9}",
                "1234567\u{1f600}", "\u{1f600}12345678", "123\u{20ac}45678901", "ffffffff\u{e9}ffffffff", "1+2345678", "+12345678", "100000000", "fffffffff",
            ];
            for s in fixed {
                let hexs: String = s.bytes().map(|b| format!("{:02x}", b)).collect();
                if !f(vec![hexs]) {
                    return;
                }
            }
            for _ in 0..budget {
                let n = rng.below(22) as usize;
                let st: String = (0..n).map(|_| alphabet[rng.below(alphabet.len() as u64) as usize]).collect();
                let hexs: String = st.bytes().map(|b| format!("{:02x}", b)).collect();
                if !f(vec![hexs]) {
                    return;
                }
            }
            // mostly digits with ONE foreign character at a random place (byte-offset arithmetic on such strings is where
            // hand-written parsers panic)
            for _ in 0..budget / 2 {
                let n = 1 + rng.below(20) as usize;
                let at = rng.below(n as u64) as usize;
                let st: String = (0..n)
                    .map(|k| if k == at { alphabet[22 + rng.below((alphabet.len() - 22) as u64) as usize] } else { alphabet[rng.below(16) as usize] })
                    .collect();
                let hexs: String = st.bytes().map(|b| format!("{:02x}", b)).collect();
                if !f(vec![hexs]) {
                    return;
                }
            }
        }
        "lonlat_to_cell" => {
            let lons = [0.0, 180.0, -180.0, 93.0, -87.0, 1e6, -1e6, 359.999999, 1e-12, f64::MAX, f64::MIN_POSITIVE];
            let lats = [0.0, 90.0, -90.0, 89.999999999, 26.565, -26.565, 52.6226, 1e-300];
            for r in [-3, -2, -1, 0, 1, 2, 3, 10, 28, 29, 30, 31, 32, 100, i32::MAX, i32::MIN] {
                for lon in lons {
                    for lat in lats {
                        if !f(vec![format!("{:e}", lon), format!("{:e}", lat), r.to_string()]) {
                            return;
                        }
                    }
                }
            }
            // special places of the dodecahedron: face centres, vertices, edge midpoints - exactly and a hair off them
            for (lon, lat) in crate::geo::special_lonlats() {
                for (dx, dy) in [(0.0, 0.0), (1e-9, 0.0), (0.0, -1e-9), (-1e-6, 1e-6)] {
                    for r in [0, 1, 2, 7, 20, 29] {
                        let la = (lat + dy as f64).max(-90.0).min(90.0);
                        if !f(vec![format!("{:e}", lon + dx), format!("{:e}", la), r.to_string()]) {
                            return;
                        }
                    }
                }
            }
            for _ in 0..budget {
                let lon = (rng.below(7_200_000) as f64) / 10_000.0 - 360.0;
                let lat = (rng.below(1_800_001) as f64) / 10_000.0 - 90.0;
                let r = rng.below(32) as i32 - 1;
                if !f(vec![format!("{:e}", lon), format!("{:e}", lat), r.to_string()]) {
                    return;
                }
            }
        }
        "cell_to_boundary" => {
            let mut r2 = Rng::new(rng.next());
            interesting_ids(rng, budget / 4, &mut |x| {
                let seg = match r2.below(8) {
                    0 => "none".to_string(),
                    1 => "1".to_string(),
                    2 => "0".to_string(),
                    3 => "-1".to_string(),
                    // fine subdivisions too (the subdivision points of a resolution-29 cell are 1e-9 of a face apart)
                    4 => [12, 16, 23, 32, 46, 64][r2.below(6) as usize].to_string(),
                    _ => (1 + r2.below(8)).to_string(),
                };
                // default segment count explodes for coarse cells only up to 64: fine
                f(vec![hx(x), seg, (r2.below(2)).to_string()])
            });
        }
        _ => {}
    }
}
