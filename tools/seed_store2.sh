#!/bin/bash
# usage: seed_store2.sh <Cxx> <srcroot> <offset>  -- validate + store seeds <srcroot>/<Cxx>/<k> as /verif/seeded/<Cxx>-<k+offset>
P=$1; ROOT=$2; OFF=$3
for d in $ROOT/$P/[0-9]; do k=$(basename $d); id=$P-$((k+OFF)); r=$(/verif/tools/seed_validate.sh $d 2>&1 | grep RESULT)
  echo "$id: $(echo $r | cut -c1-60) $(echo $r | grep -o 'demo_mutated.*' | cut -c1-60)"
  case "$r" in *"suite[passed=150 failed=0]"*"demo_clean[test result: ok"*"demo_mutated[test result: FAILED"*) ;; *) echo "  NOT VALID - skipped"; continue;; esac
  mkdir -p /verif/seeded/$id; cp $d/patch.diff $d/demo.rs /verif/seeded/$id/; python3 - "$d" "/verif/seeded/$id" <<'PY'
import json,sys
src,dst=sys.argv[1],sys.argv[2]
try: m=json.load(open(src+'/meta.json'))
except Exception as e: m={"property":src.split('/')[-2],"summary":"(meta.json of the sub-agent unreadable: %s)"%e}
m["produced_by"]="independent sub-agent given only the property text, the summaries of earlier changes for that property, and a scratch worktree"
m["validated_by_me"]={"worktree":"scratch git worktree of /repo HEAD","commands":["git apply patch.diff","cargo test --offline --no-fail-fast  -> 150 passed, 0 failed","cargo test --offline --test seed_demo (demo.rs copied to tests/) -> FAILED with the patch","same demo on the clean tree -> ok"]}
json.dump(m,open(dst+'/meta.json','w'),indent=1)
PY
done
git -C /repo worktree remove --force /tmp/wt2-$P 2>/dev/null
