#!/usr/bin/env python3
"""
kani_run.py -- overlay harness modules on a scratch copy of /repo's working tree and run cargo kani.

Harness files live in /verif/kani/<name>.rs; the first line `//@append <relpath>` names the source
file of the real crate the module is appended to (so it sees the file's private items).  /repo itself
is never touched.  The scratch copy (with its target dir) is removed on exit.
"""
import json
import os
import re
import shutil
import subprocess
import sys
import tempfile
import time

REPO = os.environ.get("A5_REPO", "/repo")
VERIF = os.path.dirname(os.path.dirname(os.path.abspath(__file__)))
SCRATCH_ROOT = os.environ.get("VERIF_SCRATCH", "/var/tmp")


def make_overlay(harness_files):
    d = tempfile.mkdtemp(prefix="a5verif-kani-", dir=SCRATCH_ROOT)
    subprocess.run(["rsync", "-a", "--exclude", "target", "--exclude", ".git", REPO + "/", d + "/"], check=True)
    for hf in harness_files:
        src = open(os.path.join(VERIF, "kani", hf)).read()
        m = re.match(r"//@append\s+(\S+)", src)
        if not m:
            raise RuntimeError("harness %s has no //@append line" % hf)
        target = os.path.join(d, m.group(1))
        if not os.path.exists(target):
            shutil.rmtree(d, ignore_errors=True)
            raise FileNotFoundError(m.group(1))
        with open(target, "a") as f:
            f.write("\n" + src)
    os.makedirs(os.path.join(d, ".cargo"), exist_ok=True)
    with open(os.path.join(d, ".cargo", "config.toml"), "w") as f:
        f.write("[net]\noffline = true\n")
    return d


def _verdict(block):
    status = "unknown"
    if "VERIFICATION:- SUCCESSFUL" in block:
        status = "success"
    elif "VERIFICATION:- FAILED" in block:
        status = "failed"
    m = re.search(r"\*\* (\d+) of (\d+) failed", block)
    t = re.search(r"Verification Time: ([\d.]+)s", block)
    failed_checks = re.findall(r"Failed Checks: (.*)", block)
    return {"status": status, "checks": int(m.group(2)) if m else None, "failed": int(m.group(1)) if m else None,
            "solver_s": float(t.group(1)) if t else None, "failed_checks": failed_checks[:10],
            "unwinding_failure": "unwinding assertion" in " ".join(failed_checks),
            "stubs": re.findall(r"- Stub: (.*)", block)}


def parse_kani_output(out):
    res = {}
    if re.search(r"^Thread \d+: Checking harness", out, re.M):
        # parallel (-j) format: "Thread N: Checking harness X..." ... "Thread N: " + result block
        cur = {}
        lines = out.split("\n")
        i = 0
        while i < len(lines):
            m = re.match(r"Thread (\d+): Checking harness ([\w:]+)", lines[i])
            if m:
                cur[m.group(1)] = m.group(2).split("::")[-1]
                i += 1
                continue
            m = re.match(r"Thread (\d+):\s*$", lines[i])
            if m and m.group(1) in cur:
                j = i + 1
                blk = []
                while j < len(lines) and not re.match(r"Thread \d+:", lines[j]):
                    blk.append(lines[j])
                    j += 1
                v = _verdict("\n".join(blk))
                if v["status"] != "unknown":
                    res[cur[m.group(1)]] = v
                i = j
                continue
            i += 1
        return res
    blocks = re.split(r"Checking harness ", out)
    for b in blocks[1:]:
        name = re.match(r"([\w:]+)", b).group(1).split("::")[-1]
        res[name] = _verdict(b)
    return res


def run_harnesses(harness_files, harness_names, extra_args=None, timeout=1500, jobs=None, playback=False):
    """returns dict name -> result; status 'error' entries carry 'log'"""
    t0 = time.time()
    try:
        d = make_overlay(harness_files)
    except FileNotFoundError as e:
        return {n: {"status": "undecided", "reason": "overlay target missing: %s" % e} for n in harness_names}, ""
    try:
        cmd = ["cargo", "kani", "-Z", "function-contracts", "-Z", "stubbing"]
        if playback:
            cmd += ["-Z", "concrete-playback", "--concrete-playback=print"]
        for h in harness_names:
            cmd += ["--harness", h]
        if jobs:
            cmd += ["-j", str(jobs), "--output-format", "terse"]
        cmd += extra_args or []
        env = dict(os.environ, CARGO_NET_OFFLINE="true", CARGO_TARGET_DIR=os.path.join(d, "target"))
        try:
            p = subprocess.run(cmd, cwd=d, capture_output=True, text=True, timeout=timeout, env=env)
            out = p.stdout + "\n" + p.stderr
        except subprocess.TimeoutExpired as e:
            out = (e.stdout or b"").decode("utf8", "replace") if isinstance(e.stdout, bytes) else (e.stdout or "")
            out += "\nTIMEOUT after %ds" % timeout
        res = parse_kani_output(out)
        for h in harness_names:
            if h not in res:
                res[h] = {"status": "undecided", "reason": "no verdict from kani (build error or timeout)",
                          "log": out[-3000:]}
        for h in res:
            res[h]["wall_s"] = round(time.time() - t0, 1)
            res[h]["cmd"] = " ".join(cmd)
        return res, out
    finally:
        shutil.rmtree(d, ignore_errors=True)


if __name__ == "__main__":
    files = [a for a in sys.argv[1:] if a.endswith(".rs")]
    names = [a for a in sys.argv[1:] if not a.endswith(".rs")]
    r, out = run_harnesses(files, names)
    print(json.dumps(r, indent=1))
    if "-v" in sys.argv or any(v["status"] != "success" for v in r.values()):
        print(out[-4000:])
