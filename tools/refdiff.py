#!/usr/bin/env python3
"""
refdiff.py -- which functions of /repo's working tree are TEXTUALLY the reference release's (comments and white space
aside)?  For such a function "behaves as in the reference release" (property C06) holds by identity, for every input
(same compiler, same libm).  Functions that differ are listed; they are what C06's harnesses / bounded stand-ins have
to carry.  Purely informational: never changes an exit code.

usage: refdiff.py <reference src dir> <current src dir>   -> JSON on stdout
"""
import hashlib
import json
import os
import re
import sys


def strip_comments(src):
    """code without comments; string / char literals kept verbatim; white space collapsed by the caller"""
    out, i, n = [], 0, len(src)
    while i < n:
        c = src[i]
        two = src[i:i + 2]
        if two == "//":
            j = src.find("\n", i)
            i = n if j < 0 else j
        elif two == "/*":
            depth, i = 1, i + 2
            while i < n and depth:
                if src[i:i + 2] == "/*":
                    depth, i = depth + 1, i + 2
                elif src[i:i + 2] == "*/":
                    depth, i = depth - 1, i + 2
                else:
                    i += 1
        elif c == '"':
            j = i + 1
            while j < n and src[j] != '"':
                j += 2 if src[j] == "\\" else 1
            out.append(src[i:j + 1])
            i = j + 1
        elif c == "r" and re.match(r'r#*"', src[i:i + 8]):
            m = re.match(r'r(#*)"', src[i:])
            close = '"' + m.group(1)
            j = src.find(close, i + len(m.group(0)))
            j = n if j < 0 else j + len(close)
            out.append(src[i:j])
            i = j
        elif c == "'":
            m = re.match(r"'(\\.[^']*|[^'\\])'", src[i:])
            if m:
                out.append(m.group(0))
                i += len(m.group(0))
            else:           # a lifetime
                out.append(c)
                i += 1
        else:
            out.append(c)
            i += 1
    return "".join(out)


def norm(text):
    return re.sub(r"\s+", " ", text).strip()


def functions(code):
    """[(qualified name, normalised text)] of every fn with a body, and the code with those bodies removed"""
    res, spans = [], []
    for m in re.finditer(r"\bfn\s+([A-Za-z_]\w*)", code):
        if any(a <= m.start() < b for a, b in spans):
            continue            # nested fn / closure inside an already recorded body: part of its parent
        k, depth = m.end(), 0
        while k < len(code):
            ch = code[k]
            if ch in "(<[":
                depth += 1
            elif ch in ")>]":
                depth = max(0, depth - 1)
            elif ch == "{" and depth == 0:
                break
            elif ch == ";" and depth == 0:
                k = -1
                break
            k += 1
        if k < 0 or k >= len(code):
            continue
        d, e = 0, k
        while e < len(code):
            if code[e] == "{":
                d += 1
            elif code[e] == "}":
                d -= 1
                if d == 0:
                    break
            e += 1
        start = code.rfind("\n", 0, m.start()) + 1
        # enclosing impl / trait / mod, for a stable qualified name
        owner = ""
        for im in re.finditer(r"\b(impl|trait|mod)\b([^{;]*)\{", code[:m.start()]):
            ob, dd, p = im.end() - 1, 0, im.end() - 1
            while p < len(code):
                if code[p] == "{":
                    dd += 1
                elif code[p] == "}":
                    dd -= 1
                    if dd == 0:
                        break
                p += 1
            if p > m.start():
                owner = norm(im.group(1) + im.group(2)) + "::"
        res.append((owner + m.group(1), norm(code[start:e + 1])))
        spans.append((start, e + 1))
    rest, last = [], 0
    for a, b in sorted(spans):
        rest.append(code[last:a])
        last = b
    rest.append(code[last:])
    return res, norm("".join(rest))


def scan(root):
    out = {}
    for dp, _dn, fns in os.walk(root):
        for fn in sorted(fns):
            if not fn.endswith(".rs"):
                continue
            rel = os.path.relpath(os.path.join(dp, fn), root)
            if rel.startswith("test"):
                continue
            code = strip_comments(open(os.path.join(dp, fn), errors="replace").read())
            fs, rest = functions(code)
            d = {}
            for name, text in fs:
                key, k = name, 2
                while key in d:
                    key, k = "%s#%d" % (name, k), k + 1
                d[key] = hashlib.sha256(text.encode()).hexdigest()[:16]
            out[rel] = {"fns": d, "rest": hashlib.sha256(rest.encode()).hexdigest()[:16]}
    return out


def compare(ref_root, cur_root):
    ref, cur = scan(ref_root), scan(cur_root)
    rep = {"identical_functions": 0, "changed_functions": [], "added_functions": [], "removed_functions": [],
           "files_with_changed_items_outside_functions": [], "added_files": [], "removed_files": []}
    for f in sorted(set(ref) | set(cur)):
        if f not in cur:
            rep["removed_files"].append(f)
            continue
        if f not in ref:
            rep["added_files"].append(f)
            continue
        rf, cf = ref[f]["fns"], cur[f]["fns"]
        for name in sorted(set(rf) | set(cf)):
            if name not in cf:
                rep["removed_functions"].append("%s::%s" % (f, name))
            elif name not in rf:
                rep["added_functions"].append("%s::%s" % (f, name))
            elif rf[name] == cf[name]:
                rep["identical_functions"] += 1
            else:
                rep["changed_functions"].append("%s::%s" % (f, name))
        if ref[f]["rest"] != cur[f]["rest"]:
            rep["files_with_changed_items_outside_functions"].append(f)
    return rep


if __name__ == "__main__":
    print(json.dumps(compare(sys.argv[1], sys.argv[2]), indent=1))
