#!/usr/bin/env python3
"""
verus_run.py -- run Verus on a generated unit and classify every diagnostic.

run_unit(unit, twin=None, seed=None, rlimit=None) ->
  { "status": "ok" | "errors" | "undecided",
    "verified": n, "errors": n,
    "failures": [ {obligation, kind, item, tags, label, line, text, message, rendered} ],
    "undecided_reason": str | None,
    "times": {...}, "functions": [ {function, ms, rlimit, success} ], "cmd": str, "meta": {...} }

Classification:
  * rustc errors with an error code, "not supported", internal errors, rlimit  -> undecided
  * "postcondition not satisfied", "precondition not satisfied", "assertion failed",
    "invariant not satisfied ...", "possible arithmetic underflow/overflow", "possible division by zero",
    "decreases not satisfied", ...                                            -> failure (named obligation)
"""
import json
import os
import re
import subprocess
import sys
import time

sys.path.insert(0, os.path.dirname(os.path.abspath(__file__)))
import vgen  # noqa: E402

VERUS = os.environ.get("VERUS", "verus")

PROOF_FAIL_PATTERNS = [
    (r"postcondition not satisfied", "postcondition"),
    (r"precondition not satisfied", "precondition"),
    (r"assertion failed", "assertion"),
    (r"invariant not satisfied", "invariant"),
    (r"possible arithmetic underflow/overflow", "overflow"),
    (r"possible division by zero", "div-by-zero"),
    (r"possible bit shift underflow/overflow", "shift-overflow"),
    (r"decreases not satisfied", "termination"),
    (r"could not prove termination", "termination"),
    (r"loop invariant not satisfied", "invariant"),
    (r"unable to prove assertion safety", "assertion"),
    (r"index out of bounds", "index"),
    (r"recommendation not met", None),  # note only
    (r"cannot show invariant holds", "invariant"),
    (r"bit.vector", "bitvector-assertion"),
    (r"assert_by_compute|assertion.*simplif", "assertion"),
    (r"requires not satisfied|failed precondition", "precondition"),
]
UNDECIDED_PATTERNS = [r"[Rr]esource limit", r"rlimit", r"not supported", r"unsupported", r"internal error",
                      r"panicked", r"The verifier does not yet support", r"timed out", r"canceled",
                      r"while loop: Resource limit"]

LABEL_RE = re.compile(r"\[(C\d\d(?:,C\d\d)*):([\w.\-@]+)\]")


def enclosing_fn(lines, line_no):
    """name of the fn whose header is nearest above line_no (1-based)"""
    for k in range(min(line_no, len(lines)) - 1, -1, -1):
        m = re.match(r"\s*(?:pub\s+)?(?:(?:open|closed)\s+)?(?:(?:proof|spec|exec)\s+)?(?:const\s+)?fn\s+(\w+)", lines[k])
        if m:
            return m.group(1)
    return "?"


def default_tags_for_line(lines, line_no):
    """prelude default tags: nearest preceding  //# tags=C05,C20  marker"""
    for k in range(min(line_no, len(lines)) - 1, -1, -1):
        m = re.match(r"\s*//#\s*tags=([\w,]+)", lines[k])
        if m:
            return m.group(1).split(",")
    return []


def classify(diag, lines, meta):
    msg = diag.get("message", "")
    code = diag.get("code")
    level = diag.get("level")
    if level != "error":
        return None
    if msg.startswith("aborting due to"):
        return None
    spans = diag.get("spans", [])
    prim = [s for s in spans if s.get("is_primary")] or spans
    line = prim[0]["line_start"] if prim else 0
    text = lines[line - 1].strip() if 0 < line <= len(lines) else ""
    # all span lines: label may sit on a secondary span (e.g. the failed precondition clause)
    span_lines = [s["line_start"] for s in spans]
    kind = None
    for pat, k in PROOF_FAIL_PATTERNS:
        if re.search(pat, msg):
            kind = k
            break
    undec = code is not None or any(re.search(p, msg) for p in UNDECIDED_PATTERNS)
    if kind is None or undec:
        return {"undecided": True, "message": msg, "line": line, "text": text,
                "rendered": diag.get("rendered", "")[:2000]}
    # region / tags
    item, tags, region_kind = None, [], "prelude"
    for r in meta["regions"]:
        if r["first"] <= line <= r["last"]:
            item, tags, region_kind = r["item"], list(r["tags"]), "extracted"
            break
    if item is None:
        item = enclosing_fn(lines, line)
        tags = default_tags_for_line(lines, line)
    label = None
    for ln in [line] + span_lines:
        if 0 < ln <= len(lines):
            m = LABEL_RE.search(lines[ln - 1])
            if m:
                tags = m.group(1).split(",")
                label = m.group(2)
                break
    in_real_code = False
    if region_kind == "extracted":
        # is the primary span on a line of the real code (not spliced contract text)?
        in_real_code = kind in ("overflow", "div-by-zero", "shift-overflow", "index", "termination")
    name = "%s::%s::%s" % (meta["unit"], item, label or ("%s@%s" % (kind, re.sub(r"\s+", " ", text)[:60])))
    return {"undecided": False, "obligation": name, "kind": kind, "item": item, "tags": tags, "label": label,
            "line": line, "text": text, "message": msg, "safety": in_real_code, "region": region_kind,
            "rendered": diag.get("rendered", "")[:3000]}


def run_unit(unit, twin=None, seed=None, rlimit=None, outdir=None, multiple_errors=40, timeout=1800, extra=None):
    t0 = time.time()
    try:
        path, meta = vgen.generate(unit, twin, outdir or os.environ.get("VERIF_BUILD"))
    except vgen.LostAnchor as e:
        return {"status": "undecided", "undecided_reason": "extractor: %s" % e, "verified": 0, "errors": 0,
                "failures": [], "functions": [], "cmd": "", "meta": None, "wall_s": time.time() - t0}
    cmd = [VERUS, os.path.basename(path), "--output-json", "--time", "--error-format=json",
           "--multiple-errors", str(multiple_errors)]
    if rlimit:
        cmd += ["--rlimit", str(rlimit)]
    if extra:
        cmd += list(extra)
    if seed is not None:
        cmd += ["--smt-option", "smt.random_seed=%d" % seed, "--smt-option", "sat.random_seed=%d" % seed]
    try:
        p = subprocess.run(cmd, cwd=os.path.dirname(path), capture_output=True, text=True, timeout=timeout)
    except subprocess.TimeoutExpired:
        return {"status": "undecided", "undecided_reason": "verus timeout %ds" % timeout, "verified": 0,
                "errors": 0, "failures": [], "functions": [], "cmd": " ".join(cmd), "meta": meta,
                "wall_s": time.time() - t0}
    lines = open(path).read().split("\n")
    out_json = None
    try:
        out_json = json.loads(p.stdout)
    except Exception:
        # stdout may contain other lines; find the outermost JSON object
        m = re.search(r"\{.*\}", p.stdout, re.S)
        if m:
            try:
                out_json = json.loads(m.group(0))
            except Exception:
                out_json = None
    failures, undec = [], []
    for ln in p.stderr.split("\n"):
        ln = ln.strip()
        if not ln.startswith("{"):
            continue
        try:
            d = json.loads(ln)
        except Exception:
            continue
        c = classify(d, lines, meta)
        if c is None:
            continue
        (undec if c["undecided"] else failures).append(c)
    res = {"cmd": "python3 /verif/tools/vgen.py %s%s --outdir <dir> && cd <dir> && %s" % (unit, (" --twin " + twin) if twin else "", " ".join(cmd)),
           "meta": meta, "failures": failures,
           "verified": 0, "errors": 0, "functions": [], "undecided_reason": None, "generated": path}
    if out_json:
        vr = out_json.get("verification-results", {})
        res["verified"] = vr.get("verified", 0)
        res["errors"] = vr.get("errors", 0)
        try:
            tm = out_json["times-ms"]
            res["times"] = {"total_ms": tm.get("total"), "smt_run_ms": tm.get("smt", {}).get("smt-run"),
                            "verus_version": out_json.get("verus", {}).get("version")}
            for mod in tm["smt"]["smt-run-module-times"]:
                for f in mod.get("function-breakdown", []):
                    res["functions"].append({"function": f["function"], "ms": f["time"],
                                             "rlimit": f.get("rlimit"), "success": f.get("success")})
        except Exception:
            pass
        if vr.get("encountered-vir-error"):
            undec.append({"message": "VIR error", "line": 0, "text": "", "rendered": p.stderr[-2000:]})
    # a resource-limit hit in one function while ANOTHER function of the same run failed definitively is
    # often an artefact (the solver process is in a degraded state after an error): re-run such functions alone
    if undec and twin is None and not extra:
        keep = []
        for u in undec:
            m = re.search(r"\bfn\s+(\w+)", u.get("text", ""))
            if re.search(r"[Rr]esource limit|rlimit", u["message"]) and m:
                fn = m.group(1)
                cmd2 = [VERUS, os.path.basename(path), "--error-format=json", "--multiple-errors", "10",
                        "--verify-root", "--verify-function", fn] + (["--rlimit", str(rlimit)] if rlimit else [])
                try:
                    p2 = subprocess.run(cmd2, cwd=os.path.dirname(path), capture_output=True, text=True, timeout=timeout)
                except subprocess.TimeoutExpired:
                    keep.append(u)
                    continue
                again_undec, again_fail = [], []
                for ln in p2.stderr.split("\n"):
                    if ln.strip().startswith("{"):
                        try:
                            c = classify(json.loads(ln), lines, meta)
                        except Exception:
                            c = None
                        if c:
                            (again_undec if c["undecided"] else again_fail).append(c)
                if again_undec:
                    keep.append(u)
                else:
                    res.setdefault("isolated_reruns", []).append({"function": fn, "failures": len(again_fail)})
                    for c in again_fail:
                        if not any(c["obligation"] == f["obligation"] for f in failures):
                            failures.append(c)
            else:
                keep.append(u)
        undec = keep
    if undec:
        res["status"] = "undecided"
        u = undec[0]
        res["undecided_reason"] = "verus could not process the unit: %s (line %s: %s)" % (
            u["message"], u["line"], u["text"])
        res["undecided_detail"] = undec[:5]
    elif out_json is None:
        res["status"] = "undecided"
        res["undecided_reason"] = "verus produced no result json (exit %d): %s" % (p.returncode, p.stderr[-500:])
    elif failures or res["errors"] > 0:
        res["status"] = "errors"
        if not failures:
            res["status"] = "undecided"
            res["undecided_reason"] = "verus reported errors but no classifiable diagnostic: " + p.stderr[-500:]
    else:
        res["status"] = "ok"
    res["wall_s"] = time.time() - t0
    return res


def scan_assumptions(path):
    """every external_body / assume_specification / assume( / admit( / axiom in the generated file"""
    src = open(path).read()
    mask = vgen.mask_source(src)
    lines = src.split("\n")
    found = []
    for m in re.finditer(r"external_body|assume_specification|\bassume\s*\(|\badmit\s*\(|\baxiom\b|external_type_specification|#\[verifier::external\b", mask):
        ln = mask.count("\n", 0, m.start()) + 1
        # find the fn / item it applies to
        name = "?"
        for k in range(ln - 1, min(ln + 6, len(lines))):
            mm = re.search(r"\bfn\s+(\w+)|assume_specification.*\[\s*([\w:<>]+)|\bstruct\s+(\w+)", lines[k])
            if mm:
                name = mm.group(1) or mm.group(2) or mm.group(3)
                break
        found.append({"what": m.group(0).strip("( "), "line": ln, "name": name})
    return found


if __name__ == "__main__":
    r = run_unit(sys.argv[1], twin=(sys.argv[2] if len(sys.argv) > 2 else None))
    r.pop("meta", None)
    print(json.dumps(r, indent=1)[:6000])
