#!/bin/bash
# usage: seed_validate.sh <dir with patch.diff demo.rs>   -- confirms in a scratch worktree:
#   patch applies, crate builds, full existing suite passes with the patch, demo fails with / passes without
set -u
D=$1
WT=/tmp/wt-validate-$$
git -C /repo worktree add -q $WT HEAD || exit 9
cleanup() { git -C /repo worktree remove --force $WT >/dev/null 2>&1; }
trap cleanup EXIT
cd $WT
export CARGO_NET_OFFLINE=true CARGO_TARGET_DIR=/tmp/wt-validate-target
git apply --check $D/patch.diff || { echo "RESULT apply=FAIL"; exit 1; }
# demo on clean tree
cp $D/demo.rs tests/seed_demo.rs
clean_out=$(timeout 900 cargo test --offline --test seed_demo 2>&1 | grep -E "^test result" | tail -1)
rm tests/seed_demo.rs
git apply $D/patch.diff
suite=$(timeout 1800 cargo test --offline --no-fail-fast 2>&1 | grep -E "^test result" | awk '{p+=$4; f+=$6} END {print "passed=" p " failed=" f}')
cp $D/demo.rs tests/seed_demo.rs
mut_out=$(timeout 900 cargo test --offline --test seed_demo 2>&1 | grep -E "^test result" | tail -1)
rm tests/seed_demo.rs
echo "RESULT apply=ok suite[$suite] demo_clean[$clean_out] demo_mutated[$mut_out]"
