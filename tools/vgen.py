#!/usr/bin/env python3
"""
vgen.py -- mechanical extractor / splicer.

Reads a unit template  /verif/contracts/<unit>.rs  and the *current working tree* of /repo and
writes one self-contained Verus file  /verif/build/<unit>.rs  plus  /verif/build/<unit>.map.json.

Everything in the template outside  //@extract ... //@end  blocks is copied verbatim (that is the
prelude: spec functions, lemmas, assumed std contracts).  Every //@extract block is replaced by the
text of the named item copied VERBATIM from /repo, altered only by
  (a) the closed table of global token rewrites below (GLOBAL_RULES),
  (b) the item-local literal rewrites listed in the block (//@rewrite "from" => "to"),
  (c) the spliced contract text (//@spec, //@loop N, //@at <anchor>).
Every alteration is counted and reported in the map file so the evidence can state exactly what the
extraction drops or changes.

Directive grammar (one per line, inside an //@extract block, section bodies are plain lines):

  //@extract <kind> <name> from <relpath> [impl=<Type>] [ret=<ident>] [tags=C05,C14] [attrs=keep]
        kind: fn | const | static | struct | enum | type
  //@rewrite "literal-from" => "literal-to"      (must match at least once, else lost anchor; a `$name` in the
                                                  literal stands for one identifier and may be used in literal-to,
                                                  and whitespace runs then match any whitespace)
  //@rewrite? "literal-from" => "literal-to"     (optional: no match = no change)
  //@sig "literal-from" => "literal-to"          (rewrite restricted to the signature)
  //@spec                                         (body: requires/ensures/decreases; placed before the fn body)
  //@loop <n>                                     (body: invariant/decreases; placed before n-th loop body)
  //@at entry | loop <n> body-start | loop <n> body-end | loop <n> after
  //@at after-let <name> [#k] | before-return <k> | before-tail | before "literal" [#k] | after "literal" [#k]
  //@end

Exit status of main(): 0 ok, 2 = lost anchor / item not found (UNDECIDED, never an alarm).
"""
import hashlib
import json
import os
import re
import sys

REPO = os.environ.get("A5_REPO", "/repo")
VERIF = os.path.dirname(os.path.dirname(os.path.abspath(__file__)))


class LostAnchor(Exception):
    pass


# ----------------------------------------------------------------------------------------------
# lexing: produce a mask of the source where comments / string / char literal contents are blanked
# ----------------------------------------------------------------------------------------------
def mask_source(src):
    out = list(src)
    i, n = 0, len(src)

    def blank(a, b):
        for k in range(a, b):
            if out[k] != "\n":
                out[k] = " "

    while i < n:
        c = src[i]
        if src.startswith("//", i):
            j = src.find("\n", i)
            j = n if j < 0 else j
            blank(i, j)
            i = j
        elif src.startswith("/*", i):
            depth, j = 1, i + 2
            while j < n and depth:
                if src.startswith("/*", j):
                    depth += 1
                    j += 2
                elif src.startswith("*/", j):
                    depth -= 1
                    j += 2
                else:
                    j += 1
            blank(i, j)
            i = j
        elif c == '"' or (c in "br" and re.match(r'(b?r#*"|b")', src[i:i + 8])):
            m = re.match(r'b?r(#*)"', src[i:])
            if m:
                hashes = m.group(1)
                start = i + m.end()
                endtok = '"' + hashes
                j = src.find(endtok, start)
                j = n if j < 0 else j
                blank(start, j)
                i = j + len(endtok)
            else:
                start = i + (2 if c == "b" else 1)
                j = start
                while j < n and src[j] != '"':
                    j += 2 if src[j] == "\\" else 1
                blank(start, j)
                i = j + 1
        elif c == "'":
            # char literal or lifetime
            m = re.match(r"'(\\.[^']*|[^\\'])'", src[i:])
            if m:
                blank(i + 1, i + m.end() - 1)
                i += m.end()
            else:
                i += 1
        else:
            i += 1
    return "".join(out)


def match_brace(mask, open_idx, open_ch="{", close_ch="}"):
    depth = 0
    for k in range(open_idx, len(mask)):
        ch = mask[k]
        if ch == open_ch:
            depth += 1
        elif ch == close_ch:
            depth -= 1
            if depth == 0:
                return k
    raise LostAnchor("unbalanced %s at %d" % (open_ch, open_idx))


def depth_at(mask, start, idx):
    """brace/paren/bracket depth of position idx relative to start"""
    d = 0
    for ch in mask[start:idx]:
        if ch in "{([":
            d += 1
        elif ch in "})]":
            d -= 1
    return d


# ----------------------------------------------------------------------------------------------
# locating items
# ----------------------------------------------------------------------------------------------
def find_item(src, mask, kind, name, impl=None):
    """returns (start, end) byte range of the item text (without leading attrs / doc comments)"""
    lo, hi = 0, len(src)
    if impl:
        m = re.search(r"\bimpl\s+(?:<[^>]*>\s*)?%s\b[^{;]*\{" % re.escape(impl), mask)
        if not m:
            raise LostAnchor("impl %s not found" % impl)
        lo = m.end() - 1
        hi = match_brace(mask, lo)
    vis = r"(?:pub(?:\s*\([^)]*\))?\s+)?"
    if kind == "fn":
        pat = vis + r"(?:const\s+)?fn\s+%s\b" % re.escape(name)
    elif kind in ("const", "static"):
        pat = vis + r"%s\s+(?:ref\s+)?%s\s*:" % (kind, re.escape(name))
    elif kind in ("struct", "enum", "type"):
        pat = vis + r"%s\s+%s\b" % (kind, re.escape(name))
    else:
        raise LostAnchor("unknown kind " + kind)
    want_depth = 1 if impl else 0
    for m in re.finditer(pat, mask[:hi]):
        if m.start() < lo:
            continue
        # must be at the expected nesting depth (item level), except lazy_static refs
        d = depth_at(mask, lo, m.start())
        if d != want_depth and not (kind == "static" and "ref" in m.group(0)):
            continue
        start = m.start()
        if kind == "fn":
            # body = first '{' at paren depth 0 after the signature
            k, pd = m.end(), 0
            while k < hi:
                ch = mask[k]
                if ch in "([":
                    pd += 1
                elif ch in ")]":
                    pd -= 1
                elif ch == "{" and pd == 0:
                    break
                elif ch == ";" and pd == 0:
                    raise LostAnchor("fn %s has no body" % name)
                k += 1
            end = match_brace(mask, k) + 1
            return start, end, k
        if kind in ("const", "static", "type"):
            k, d = m.end(), 0
            while k < hi:
                ch = mask[k]
                if ch in "{([":
                    d += 1
                elif ch in "})]":
                    d -= 1
                elif ch == ";" and d == 0:
                    return start, k + 1, None
                k += 1
            raise LostAnchor("unterminated %s %s" % (kind, name))
        # struct / enum
        k = m.end()
        while k < hi and mask[k] not in "{;(":
            k += 1
        if mask[k] == "{":
            return start, match_brace(mask, k) + 1, None
        if mask[k] == "(":
            e = match_brace(mask, k, "(", ")")
            e = mask.index(";", e)
            return start, e + 1, None
        return start, k + 1, None
    raise LostAnchor("%s %s not found%s" % (kind, name, " in impl " + impl if impl else ""))


def leading_attrs(src, start):
    """text of #[...] attribute lines immediately above the item (doc comments skipped)"""
    lines = src[:start].split("\n")
    # the last element is the partial line before the item (indentation)
    attrs = []
    k = len(lines) - 2
    while k >= 0:
        s = lines[k].strip()
        if s.startswith("#["):
            attrs.insert(0, s)
        elif s.startswith("///") or s.startswith("//"):
            pass
        else:
            break
        k -= 1
    return attrs


# ----------------------------------------------------------------------------------------------
# global rewrite rules (closed table).  Each returns (new_text, count)
# ----------------------------------------------------------------------------------------------
def _balanced_call_end(mask, open_paren_idx):
    return match_brace(mask, open_paren_idx, "(", ")")


def rule_R1(text):
    """format!(..) and "..".to_string()  ->  err_msg()   (error *text* is not verified)"""
    count = 0
    while True:
        mask = mask_source(text)
        m = re.search(r"\bformat!\s*\(", mask)
        if not m:
            break
        e = _balanced_call_end(mask, m.end() - 1)
        text = text[:m.start()] + "err_msg()" + text[e + 1:]
        count += 1
    while True:
        mask = mask_source(text)
        m = re.search(r'"[^"\n]*"\s*\.to_string\(\)', mask)
        if not m:
            break
        text = text[:m.start()] + "err_msg()" + text[m.end():]
        count += 1
    return text, count


def rule_R2(text):
    """for &x in &v {   ->   for __k_x in 0..v.len() { let x = v[__k_x];
       for &x in v {    ->   same (v is a slice)"""
    count = 0

    def repl(m):
        nonlocal count
        count += 1
        x, v = m.group(1), m.group(2)
        return "for __k_%s in 0..%s.len() { let %s = %s[__k_%s];" % (x, v, x, v, x)

    text = re.sub(r"for\s+&(\w+)\s+in\s+&?(\w+)\s*\{", repl, text)

    def repl2(m):
        nonlocal count
        count += 1
        i, x, v = m.group(1), m.group(2), m.group(3)
        return "for %s in 0..%s.len() { let %s = %s[%s];" % (i, v, x, v, i)

    text = re.sub(r"for\s+\((\w+),\s*&(\w+)\)\s+in\s+(\w+)\.iter\(\)\.enumerate\(\)\s*\{", repl2, text)

    def repl3(m):
        # for i in (0..N).rev() {   ->   let mut __rev_i = N; while __rev_i > 0 { __rev_i -= 1; let i = __rev_i;
        nonlocal count
        count += 1
        i, n = m.group(1), m.group(2)
        return "let mut __rev_%s = %s; while __rev_%s > 0 { __rev_%s -= 1; let %s = __rev_%s;" % (i, n, i, i, i, i)

    text = re.sub(r"for\s+(\w+)\s+in\s+\(0\.\.([\w.()]+)\)\.rev\(\)\s*\{", repl3, text)

    def repl4(m):
        # for (i, &x) in v.iter().enumerate().rev() {  ->  reversed index loop + let x = v[i];
        nonlocal count
        count += 1
        i, x, v = m.group(1), m.group(2), m.group(3)
        return ("let mut __rev_%s = %s.len(); while __rev_%s > 0 { __rev_%s -= 1; let %s = __rev_%s; let %s = %s[%s];"
                % (i, v, i, i, i, i, x, v, i))

    text = re.sub(r"for\s+\((\w+),\s*&(\w+)\)\s+in\s+(\w+)\.iter\(\)\.enumerate\(\)\.rev\(\)\s*\{", repl4, text)
    return text, count


def rule_R3(text):
    """std::cmp::max( / std::cmp::min(  ->  max_i32( / min_i32(   (verified local helpers)"""
    n = len(re.findall(r"\bstd::cmp::(max|min)\(", text))
    text = re.sub(r"\bstd::cmp::max\(", "max_i32(", text)
    text = re.sub(r"\bstd::cmp::min\(", "min_i32(", text)
    return text, n


def rule_R4(text):
    """crate::a::b::item -> item   (the unit is one flat file; module paths are dropped)"""
    pat = r"\bcrate::(?:[a-z_][a-z0-9_]*::)+"
    n = len(re.findall(pat, text))
    return re.sub(pat, "", text), n


GLOBAL_RULES = [("R1", rule_R1), ("R2", rule_R2), ("R3", rule_R3), ("R4", rule_R4)]


# ----------------------------------------------------------------------------------------------
# splicing
# ----------------------------------------------------------------------------------------------
LOOP_RE = re.compile(r"\b(while|for|loop)\b")


_TOK = re.compile(r"\$[A-Za-z_]\w*|[A-Za-z_]\w*|\d[\w.]*|\"(?:\\.|[^\"\\])*\"|\S")


def literal_to_regex(lit):
    toks = _TOK.findall(lit)
    seen, out, prev_word = set(), [], False
    for k, t in enumerate(toks):
        word = bool(re.match(r"[\w$]", t[0]))
        if out:
            out.append(r"\s+" if (word and prev_word) else r"\s*")
        if t.startswith("$"):
            name = t[1:]
            if name in seen:
                out.append("(?P=%s)" % name)
            else:
                seen.add(name)
                out.append(r"(?P<%s>[A-Za-z_]\w*)" % name)
        elif t == "," and k + 1 < len(toks) and toks[k + 1] in ")]}":
            out.append(",?")
        elif t in ")]}" and k > 0 and toks[k - 1] not in ",([{":
            out.append(r",?\s*" + re.escape(t))
        else:
            out.append(re.escape(t))
        prev_word = word
    return "".join(out)


def loops_in(mask, body_open, body_close):
    """[(kw_idx, open_brace_idx, close_brace_idx)] in source order for loops inside the fn body"""
    res = []
    for m in LOOP_RE.finditer(mask, body_open, body_close):
        # ignore 'for' in 'for<'a>' / impl ... for (not in bodies) ; find '{' at paren depth 0
        k, pd = m.end(), 0
        while k < body_close:
            ch = mask[k]
            if ch in "([":
                pd += 1
            elif ch in ")]":
                pd -= 1
            elif ch == "{" and pd == 0:
                break
            k += 1
        res.append((m.start(), k, match_brace(mask, k)))
    return res


def stmt_end(mask, idx, limit):
    """end (exclusive, after ';') of the statement starting at idx"""
    d = 0
    for k in range(idx, limit):
        ch = mask[k]
        if ch in "{([":
            d += 1
        elif ch in "})]":
            d -= 1
        elif ch == ";" and d == 0:
            return k + 1
    raise LostAnchor("statement end not found")


def indent_block(lines, indent):
    return "".join(indent + ln.rstrip("\n") + "\n" if ln.strip() else "\n" for ln in lines)


def resolve_anchor(anchor, text, mask, body_open, body_close):
    """returns insertion offset in text for the anchor"""
    toks = anchor.split()
    loops = None

    def get_loop(n):
        nonlocal loops
        if loops is None:
            loops = loops_in(mask, body_open, body_close)
        if n < 1 or n > len(loops):
            raise LostAnchor("loop %d not found (function has %d loops)" % (n, len(loops)))
        return loops[n - 1]

    if toks[0] == "entry":
        return body_open + 1
    if toks[0] == "loop":
        kw, ob, cb = get_loop(int(toks[1]))
        where = toks[2]
        if where == "head":
            return ob
        if where == "body-start":
            # skip the `let x = v[__k_x];` statement introduced by rule R2
            m = re.match(r"\s*__rev_\w+ -= 1; let \w+ = __rev_\w+;(?: let \w+ = \w+\[\w+\];)?|\s*let \w+ = \w+\[\w+\];", text[ob + 1:cb])
            return ob + 1 + (m.end() if m else 0)
        if where == "body-end":
            return cb
        if where == "after":
            return cb + 1
        raise LostAnchor("bad loop anchor " + anchor)
    if toks[0] == "after-let":
        name = toks[1]
        k = int(toks[2][1:]) if len(toks) > 2 else 1
        ms = list(re.finditer(r"\blet\s+(?:mut\s+)?%s\b" % re.escape(name), mask[body_open:body_close]))
        if len(ms) < k:
            raise LostAnchor("let %s #%d not found" % (name, k))
        return stmt_end(mask, body_open + ms[k - 1].start(), body_close)
    if toks[0] == "before-return":
        k = int(toks[1])
        ms = list(re.finditer(r"\breturn\b", mask[body_open:body_close]))
        if len(ms) < k:
            raise LostAnchor("return #%d not found" % k)
        return body_open + ms[k - 1].start()
    if toks[0] == "before-tail":
        # tail expression = text after the last ';' or '}' at depth 1 of the body
        k, d, last = body_open + 1, 0, body_open + 1
        while k < body_close:
            ch = mask[k]
            if ch in "{([":
                d += 1
            elif ch in "})]":
                d -= 1
                if d == 0 and ch == "}":
                    # block-like statement ends here unless followed by tail-ish continuation
                    last = k + 1
            elif ch == ";" and d == 0:
                last = k + 1
            k += 1
        # skip whitespace
        while last < body_close and text[last] in " \t\n":
            last += 1
        return last
    if toks[0] in ("before", "after"):
        m = re.match(r'(before|after)\s+"(.*)"(?:\s+#(\d+))?\s*$', anchor)
        if not m:
            raise LostAnchor("bad anchor " + anchor)
        lit, k = m.group(2), int(m.group(3) or 1)
        pos, start = -1, body_open
        for _ in range(k):
            pos = text.find(lit, start, body_close)
            if pos < 0:
                raise LostAnchor('text anchor "%s" #%d not found' % (lit, k))
            start = pos + 1
        if toks[0] == "before":
            # back up to start of the line's first non-blank
            ls = text.rfind("\n", 0, pos) + 1
            if text[ls:pos].strip() == "":
                return ls
            return pos
        return stmt_end(mask, pos, body_close)
    raise LostAnchor("unknown anchor " + anchor)


class Block:
    def __init__(self, header, lineno):
        self.header = header
        self.lineno = lineno
        self.rewrites = []      # (kind, from, to)  kind in rewrite, rewrite?, sig
        self.sections = []      # (anchor, [lines])   anchor 'spec' | 'loop N head' | ...
        m = re.match(r"//@extract\s+(\w+)\s+(\w+)\s+from\s+(\S+)(.*)$", header.strip())
        if not m:
            raise LostAnchor("bad //@extract line %d: %s" % (lineno, header))
        self.kind, self.name, self.path = m.group(1), m.group(2), m.group(3)
        self.opts = dict(kv.split("=", 1) for kv in m.group(4).split())
        self.tags = [t for t in self.opts.get("tags", "").split(",") if t]


def parse_template(path):
    """yields ('text', str) and ('block', Block)"""
    out = []
    cur, sec = None, None
    with open(path) as f:
        for lineno, line in enumerate(f, 1):
            s = line.strip()
            if cur is None:
                if s.startswith("//@include"):
                    inc = os.path.join(VERIF, "contracts", s.split()[1])
                    out.append(("text", "// ---- begin include %s\n" % s.split()[1]))
                    out.extend(parse_template(inc))
                    out.append(("text", "// ---- end include %s\n" % s.split()[1]))
                elif s.startswith("//@extract"):
                    cur = Block(s, lineno)
                    sec = None
                else:
                    out.append(("text", line))
                continue
            if s.startswith("//@end"):
                out.append(("block", cur))
                cur, sec = None, None
            elif s.startswith("//@rewrite") or s.startswith("//@sig"):
                m = re.match(r'//@(rewrite\??|sig)\s+"(.*)"\s*=>\s*"(.*)"\s*$', s)
                if not m:
                    raise LostAnchor("bad rewrite line %d" % lineno)
                cur.rewrites.append((m.group(1), m.group(2).encode().decode("unicode_escape"),
                                     m.group(3).encode().decode("unicode_escape")))
            elif s.startswith("//@fnattr"):
                cur.fnattrs = getattr(cur, "fnattrs", []) + [s[len("//@fnattr"):].strip()]
            elif s.startswith("//@spec"):
                sec = ("spec", [], lineno)
                cur.sections.append(sec)
            elif s.startswith("//@loop"):
                n = int(s.split()[1])
                sec = ("loop %d head" % n, [], lineno)
                cur.sections.append(sec)
            elif s.startswith("//@at"):
                sec = (s[len("//@at"):].strip(), [], lineno)
                cur.sections.append(sec)
            elif s.startswith("//@"):
                raise LostAnchor("unknown directive line %d: %s" % (lineno, s))
            else:
                if sec is None:
                    if s:
                        raise LostAnchor("text outside a section in extract block, line %d" % lineno)
                else:
                    sec[1].append(line)
    if cur is not None:
        raise LostAnchor("unterminated //@extract block at line %d" % cur.lineno)
    return out


def const_closure(src, mask, text, defined, report_list, depth=0):
    """ALL_CAPS identifiers used by an extracted item but defined nowhere in the unit are looked up as
    const/static items of the same source file and extracted verbatim too (mechanical dependency closure)."""
    out = ""
    if depth > 4:
        return out
    tmask = mask_source(text)
    for m in re.finditer(r"(?<![:\w])([A-Z][A-Z0-9_]{2,})\b", tmask):
        name = m.group(1)
        if name in defined:
            continue
        for kind in ("const", "static"):
            try:
                st, en, _ = find_item(src, mask, kind, name)
            except LostAnchor:
                continue
            defined.add(name)
            item = src[st:en]
            out += const_closure(src, mask, item, defined, report_list, depth + 1)
            out += item + "\n"
            report_list.append({"auto_extracted": name, "kind": kind,
                                "sha256": hashlib.sha256(item.encode()).hexdigest()[:16]})
            break
    return out


def process_block(blk, report, twin=None, defined=None):
    path = os.path.join(REPO, blk.path)
    if not os.path.exists(path):
        raise LostAnchor("source file %s missing" % blk.path)
    src = open(path).read()
    mask = mask_source(src)
    start, end, body_open = find_item(src, mask, blk.kind, blk.name, blk.opts.get("impl"))
    text = src[start:end]
    sha = hashlib.sha256(text.encode()).hexdigest()
    applied = []
    attrs = leading_attrs(src, start)
    keep_attrs = [a for a in attrs if a.startswith("#[derive")] if blk.opts.get("attrs") == "keep" else []

    # ---- rewrites on the verbatim text
    if blk.kind == "fn":
        for rid, fn in GLOBAL_RULES:
            text, n = fn(text)
            if n:
                applied.append({"rule": rid, "count": n})
    for kind, frm, to in blk.rewrites:
        if kind == "sig":
            m2 = mask_source(text)
            _, _, bo = find_item(text, m2, blk.kind, blk.name)
            cnt = text[:bo].count(frm)
            if cnt == 0:
                raise LostAnchor('sig rewrite "%s" did not match in %s' % (frm, blk.name))
            text = text[:bo].replace(frm, to) + text[bo:]
        else:
            # token-wise, formatting-insensitive match: white space between tokens is free, a trailing comma before a
            # closing bracket may come and go (rustfmt), `$name` stands for one identifier (same name = same
            # identifier; usable in the replacement)
            pat, cnt = literal_to_regex(frm), 0

            def _sub(mo, to=to):
                return re.sub(r"\$([A-Za-z_]\w*)", lambda g: mo.group(g.group(1)) if g.group(1) in mo.groupdict() else g.group(0), to)
            text, cnt = re.subn(pat, _sub, text)
            if cnt == 0 and kind == "rewrite":
                raise LostAnchor('rewrite "%s" did not match in %s %s' % (frm, blk.kind, blk.name))
        if cnt:
            applied.append({"rule": "local", "from": frm, "to": to, "count": cnt})

    text_after_rewrites = text
    ret = blk.opts.get("ret")
    if blk.kind == "fn" and ret:
        m2 = mask_source(text)
        _, _, bo = find_item(text, m2, "fn", blk.name)
        sig = text[:bo]
        m3 = re.search(r"->\s*(.+?)\s*$", sig, re.S)
        if not m3:
            raise LostAnchor("fn %s has no return type for ret=" % blk.name)
        sig = sig[:m3.start()] + "-> (%s: %s) " % (ret, m3.group(1).strip())
        text = sig + text[bo:]

    # ---- splice sections
    labels = []  # (marker, section anchor, template line)
    if blk.kind == "fn":
        m2 = mask_source(text)
        _, e2, bo = find_item(text, m2, "fn", blk.name)
        bc = e2 - 1
        inserts = []  # (offset, order, string)
        order = 0
        secs = list(blk.sections)
        if twin == "entry" or twin == "one:" + blk.name:
            secs.append(("entry", ["proof { assert(false); } // VACUITY-PROBE entry %s\n" % blk.name], 0))
        if twin and twin.startswith("loop:"):
            # single probe: loop:<fn>:<n>
            _, fn_, n_ = twin.split(":")
            if fn_ == blk.name:
                secs.append(("loop %d body-start" % int(n_),
                             ["proof { assert(false); } // VACUITY-PROBE loop%d %s\n" % (int(n_), blk.name)], 0))
        if twin == "loops":
            for li in range(len(loops_in(m2, bo, bc))):
                secs.append(("loop %d body-start" % (li + 1),
                             ["proof { assert(false); } // VACUITY-PROBE loop%d %s\n" % (li + 1, blk.name)], 0))
        for anchor, lines, tl in secs:
            order += 1
            a = "loop 0" if False else anchor
            if anchor == "spec":
                off = bo
                s = "\n" + indent_block(lines, "    ")
            else:
                off = resolve_anchor(a, text, m2, bo, bc)
                if anchor.endswith("head"):
                    s = "\n" + indent_block(lines, "        ") + "    "
                else:
                    s = "\n" + indent_block(lines, "        ")
            inserts.append((off, order, s, anchor, tl))
        for off, _, s, anchor, tl in sorted(inserts, key=lambda t: (-t[0], -t[1])):
            text = text[:off] + s + text[off:]
    elif blk.sections:
        raise LostAnchor("sections on non-fn item " + blk.name)

    auto = []
    closure = ""
    if blk.kind == "fn" and defined is not None:
        closure = const_closure(src, mask, text_after_rewrites, defined, auto)
    head = closure + "".join(a + "\n" for a in keep_attrs) + "".join(a + "\n" for a in getattr(blk, "fnattrs", []))
    report.append({
        "item": blk.name, "kind": blk.kind, "file": blk.path, "impl": blk.opts.get("impl"),
        "sha256": sha, "tags": blk.tags, "rewrites": applied,
        "dropped_attrs": [a for a in attrs if a not in keep_attrs],
        "auto_extracted_consts": auto,
        "src_lines": [src.count("\n", 0, start) + 1, src.count("\n", 0, end) + 1],
    })
    return head + text + "\n"


def generate(unit, twin=None, outdir=None):
    tpl = os.path.join(VERIF, "contracts", unit + ".rs")
    outdir = outdir or os.path.join(VERIF, "build")
    os.makedirs(outdir, exist_ok=True)
    parts = parse_template(tpl)
    defined = set()
    for kind, val in parts:
        if kind == "text":
            defined.update(re.findall(r"\b(?:const|static|fn|struct|enum|type)\s+(\w+)", val))
        else:
            defined.add(val.name)
    report = []
    out_lines = []
    regions = []   # {"item":..., "first":line, "last":line, "tags":[...]}
    cur_line = 1
    for kind, val in parts:
        if kind == "text":
            out_lines.append(val)
            cur_line += val.count("\n")
        else:
            txt = process_block(val, report, twin, defined)
            n = txt.count("\n")
            regions.append({"item": val.name, "kind": val.kind, "first": cur_line,
                            "last": cur_line + n - 1, "tags": val.tags, "file": val.path})
            out_lines.append(txt)
            cur_line += n
    suffix = "" if not twin else "_twin_" + re.sub(r"\W", "_", twin)
    out_path = os.path.join(outdir, unit + suffix + ".rs")
    text = "".join(out_lines)
    if twin == "entry":
        # lemmas (proof fns in the prelude) get a probe too
        text = add_lemma_probes(text)
    elif twin and twin.startswith("one:"):
        text = add_lemma_probes(text, only=twin[4:])
    with open(out_path, "w") as f:
        f.write(text)
    meta = {"unit": unit, "template": tpl, "generated": out_path, "items": report, "regions": regions,
            "twin": twin}
    with open(os.path.join(outdir, unit + suffix + ".map.json"), "w") as f:
        json.dump(meta, f, indent=1)
    return out_path, meta


def add_lemma_probes(text, only=None):
    """insert assert(false) at the entry of every `proof fn` body in the prelude (vacuity twin)"""
    mask = mask_source(text)
    out, last = [], 0
    for m in re.finditer(r"\bproof\s+fn\s+(\w+)", mask):
        if only is not None and m.group(1) != only:
            continue
        # an axiom (`#[verifier::external_body] proof fn`) has no checked body: nothing to probe; it is listed as an
        # assumption by scan_assumptions instead
        head = text[max(0, m.start() - 120):m.start()]
        if re.search(r"#\[verifier::external_body\]\s*(pub\s+)?$", head):
            continue
        # find body '{' at paren depth 0
        k, pd = m.end(), 0
        while k < len(mask):
            ch = mask[k]
            if ch in "([":
                pd += 1
            elif ch in ")]":
                pd -= 1
            elif ch == "{" and pd == 0:
                break
            elif ch == ";" and pd == 0:
                k = -1
                break
            k += 1
        if k < 0:
            continue
        # 'by (bit_vector)' / 'by (nonlinear_arith)' lemmas have the body after the by-clause; the
        # first '{' at depth 0 is still the body.
        out.append(text[last:k + 1])
        out.append(" assert(false); /* VACUITY-PROBE lemma %s */ " % m.group(1))
        last = k + 1
    out.append(text[last:])
    return "".join(out)


def main():
    import argparse
    ap = argparse.ArgumentParser()
    ap.add_argument("unit")
    ap.add_argument("--twin")
    ap.add_argument("--outdir")
    a = ap.parse_args()
    try:
        p, meta = generate(a.unit, a.twin, a.outdir)
    except LostAnchor as e:
        print("UNDECIDED extractor: %s" % e)
        sys.exit(2)
    print(p)


if __name__ == "__main__":
    main()
