#!/bin/bash
# trial of every stored seed against the check of the property it targets (+ extra properties), on scratch copies,
# 5 in parallel; records the outcome in seeded/<id>/meta.json ("trial")
cd /verif
declare -A EXTRA=( [C05-3]="C07 C14" [C08-2]="C20" [C10-2]="C20" [C20-1]="C05" [C20-3]="C07" [C04-1]="C13" [C18-1]="C06" [C17-1]="C06" [C08-6]="C20" [C20-4]="C07" [C14-6]="C07" )
one() {
  id=$1; shift
  out=$(tools/seed_run.sh $id "$@" 2>&1)
  python3 - "$id" "$out" <<'PY'
import json,sys,re
sid,out=sys.argv[1],sys.argv[2]
p='/verif/seeded/%s/meta.json'%sid
m=json.load(open(p))
res=[];cur=None
for l in out.split('\n'):
    mm=re.match(r'== (\S+) (\S+) rc=(\d+)',l)
    if mm:
        cur={"property":mm.group(2),"exit":int(mm.group(3)),"lines":[]}; res.append(cur)
    elif cur is not None and l.strip():
        cur["lines"].append(re.sub(r'/var/tmp/seedrun-[^/]+/out/','',l.strip())[:300])
m["trial"]={"how":"tools/seed_run.sh: rsync copy of /repo + patch.diff, then ./check <property> with A5_REPO pointing at the copy","results":res}
json.dump(m,open(p,'w'),indent=1)
print(sid, [(r["property"],r["exit"]) for r in res])
PY
}
export -f one
for d in seeded/*/; do id=$(basename $d); p=${id%-*}; echo "$id $p ${EXTRA[$id]:-}" | sed 's/ *$//'; done | xargs -P 4 -L 1 bash -c 'one "$@"' _
