#!/bin/bash
# usage: benign_run.sh <patch-file> <prop> [<prop>...]
# False-alarm trial: runs the given checks against a scratch copy of /repo with a BEHAVIOUR-PRESERVING patch applied.
# Expected: rc=0 everywhere (rc=2 = lost anchor / undecided is tolerated but noted; rc=1 is a false alarm to fix).
set -u
PF=$1; shift
ID=$(basename $PF .diff)
S=/var/tmp/benignrun-$ID
rm -rf $S; mkdir -p $S
rsync -a --exclude target --exclude .git /repo/ $S/repo/
( cd $S/repo && patch -p1 -s < $PF ) || { echo "$ID apply-failed"; exit 9; }
for P in "$@"; do
  out=$(A5_REPO=$S/repo VERIF_BUILD=$S/build VERIF_OUT=$S/out VERIF_SCRATCH=$S timeout 3000 /verif/check $P 2>&1)
  rc=$?
  echo "== $ID $P rc=$rc"
  echo "$out" | grep -E "^(VIOLATION|UNDECIDED|  |Traceback|[A-Za-z]*Error)" | cut -c1-300
done
rm -rf $S
