#!/bin/bash
# sequential confirmation of every stored seed against the property it targets (and the others that catch it)
cd /verif
declare -A EXTRA=( [C05-3]="C07 C14" [C08-2]="C20" [C10-2]="C20" [C20-1]="C05" [C20-3]="C07" [C04-1]="C13" [C18-1]="C06" )
for d in seeded/*/; do id=$(basename $d); p=${id%-*}; tools/seed_confirm.sh $id $p ${EXTRA[$id]:-}; done
