#!/usr/bin/env python3
"""writes /verif/MANIFEST.json from tools/props.py (single source of truth)"""
import json
import os
import subprocess
import sys
sys.path.insert(0, os.path.dirname(os.path.abspath(__file__)))
import props

VERIF = os.path.dirname(os.path.dirname(os.path.abspath(__file__)))
fix_commits = subprocess.run(["git", "-C", "/repo", "log", "--format=%h %s", "--grep=^fix:"], capture_output=True, text=True).stdout.strip().split("\n")
m = {
    "version": 1,
    "setup_cmd": "cd /verif/replay && CARGO_NET_OFFLINE=true cargo build --offline -q && CARGO_NET_OFFLINE=true cargo build --offline -q --release && cd /verif && python3 tools/verus_run.py codec >/dev/null",
    "hooks": {
        "guard": "none in /repo: Kani harness modules are appended under #[cfg(kani)] to a scratch copy of the working tree at check time; Verus units are extracted from the working tree at check time",
        "enable": "tools/kani_run.py overlays /verif/kani/*.rs on a scratch copy (rsync of /repo's working tree) and runs cargo kani there; tools/vgen.py extracts items from /repo/src into a private directory under /verif/build/ for each run",
        "baseline_off_cmd": "cd /repo && cargo test --workspace --no-fail-fast --offline",
        "source_commits": [c for c in fix_commits if c],
        "add_only": True,
    },
    "engines": [
        {"name": "verus", "path": "/verif/tools/verus_run.py", "serves_properties": sorted(p for p, c in props.PROPS.items() if c.get("units")),
         "kind_free_text": "contract-based deductive verification (Verus/Z3) of items extracted verbatim from /repo on every run"},
        {"name": "kani", "path": "/verif/tools/kani_run.py", "serves_properties": sorted(p for p, c in props.PROPS.items() if c.get("kani")),
         "kind_free_text": "Kani/CBMC harnesses on the real crate (closed-term and full-domain = complete; bounded = stand-in, labelled)"},
        {"name": "replay", "path": "/verif/replay", "serves_properties": sorted(props.PROPS),
         "kind_free_text": "executable postconditions and property oracles run against the real crate: witness search, replay, and the bounded stand-ins for sentences no contract reaches (always labelled bounded, never counted as proved)"},
    ],
    "checks": [],
    "not_applicable": [],
    "notes": "Exit 2 = UNDECIDED (lost anchor / unsupported construct / solver limit / dependency contract failed), never an alarm. known_findings.json lists genuine defects recorded rather than repaired, and fixed: entries.",
}
for pid in sorted(props.PROPS):
    c = props.PROPS[pid]
    m["checks"].append({
        "property_id": pid,
        "quick_cmd": "./check %s --tier quick" % pid,
        "thorough_cmd": "./check %s --tier thorough" % pid,
        "evidence_file": "/verif/evidence/%s.json" % pid,
        "replay_cmd_template": "./check --replay {path}",
        "engine": "verus" if c.get("units") else "kani",
        "level_claimed": {"category": c.get("level", "proof"), "text": c["level_text"], "design_ref": c.get("design_ref", "DESIGN.md §0 (summary row) and §4 (" + pid + ")")},
        "level_note": c["level_note"],
        "technique": c["technique"],
    })
for pid, reason in sorted(props.NOT_APPLICABLE.items()):
    if pid not in props.PROPS:
        m["not_applicable"].append({"property_id": pid, "reason": reason})
json.dump(m, open(os.path.join(VERIF, "MANIFEST.json"), "w"), indent=1)
print("MANIFEST.json written: %d checks, %d not_applicable" % (len(m["checks"]), len(m["not_applicable"])))
