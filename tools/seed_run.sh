#!/bin/bash
# usage: seed_run.sh <seed-id> <prop> [<prop>...]
# Development aid: runs the given checks against a scratch copy of /repo with the seeded patch applied
# (several seeds can run in parallel).  The recorded confirmation uses /repo itself (tools/seed_confirm.sh).
set -u
ID=$1; shift
S=/var/tmp/seedrun-$ID
rm -rf $S; mkdir -p $S
rsync -a --exclude target --exclude .git /repo/ $S/repo/
( cd $S/repo && patch -p1 -s < /verif/seeded/$ID/patch.diff ) || { echo "$ID apply-failed"; exit 9; }
for P in "$@"; do
  out=$(A5_REPO=$S/repo VERIF_BUILD=$S/build VERIF_OUT=$S/out VERIF_SCRATCH=$S timeout 3000 /verif/check $P 2>&1)
  rc=$?
  echo "== $ID $P rc=$rc"
  echo "$out" | grep -E "^(VIOLATION|UNDECIDED|OK|  |Traceback|[A-Za-z]*Error)" | cut -c1-260
done
rm -rf $S
