"""per-property configuration of the check driver"""

K1 = {"file": "k1_origins.rs", "harness": "k1_origins", "kind": "closed-term",
      "what": "real generate_origins() == reference face table (id, first_quintant, orientation[5]) for all 12 faces; "
              "discharges the assumed contract of get_origins() (rule R6)"}

STD_ASSUME = [
    "64-bit target: `global size_of usize == 8`",
    "get_origins(): OnceLock returns the value of generate_origins() (std contract); its table contract is "
    "discharged by Kani harness k1_origins on the real generate_origins()",
    "error message text is not verified (format!/to_string in Err(..) replaced by err_msg(), rule R1)",
]

PROPS = {
    "C05": {
        "units": ["codec"],
        "kani": [K1],
        "level": "proof",
        "assumptions": STD_ASSUME + [
            "hex formatting/parsing sentence (u64_to_hex/hex_to_u64 are thin wrappers over core::fmt and "
            "u64::from_str_radix) is NOT decided by a contract: Verus would assume 100% of it, Kani does not get "
            "through core::fmt",
        ],
        "search_ops": ["roundtrip", "serialize", "deserialize", "get_resolution"],
        "level_text": "Unbounded proof (Verus/Z3) that the real get_resolution/deserialize/serialize, extracted verbatim on "
                      "every run, equal the documented bit layout (spec fn enc/dec/res_of written from the property), plus "
                      "pure lemmas: decode(encode(c))==c for every valid cell, resolution read-back, injectivity, every "
                      "decodable pattern decodes to a valid cell whose re-encoding is the canonical ID it aliases. The face "
                      "table the codec reads is pinned by a complete closed-term Kani proof on the real generate_origins().",
        "level_note": "Assumed: get_origins() returns generate_origins()'s value (OnceLock); usize is 64 bit; error text not "
                      "verified. NOT decided: the hexadecimal sentence (u64_to_hex/hex_to_u64 are one-line wrappers over "
                      "core::fmt / from_str_radix; nothing of ours to put under contract) - see DESIGN.md.",
        "technique": "Verus contracts on extracted real functions + bit_vector lemmas; Kani closed-term harness for the face table",
    },
}

# item name -> replay ops used to look for a failing input when an obligation of that item fails
SEARCH_OPS = {
    "get_resolution": ["get_resolution", "roundtrip"],
    "serialize": ["serialize", "roundtrip"],
    "deserialize": ["deserialize", "roundtrip"],
    "cell_to_parent": ["cell_to_parent"],
    "cell_to_children": ["cell_to_children"],
    "get_res0_cells": ["get_res0_cells"],
    "is_first_child": ["is_first_child"],
    "get_stride": ["get_stride"],
    "get_num_cells": ["get_num_cells", "cell_area"],
    "get_num_children": ["get_num_children"],
    "uncompact": ["uncompact", "uncompact_total"],
    "compact": ["compact", "compact_total"],
    "k1_origins": ["roundtrip", "deserialize"],
}

# allow-list of assumptions per generated unit ("<what> <name>"); anything else -> UNDECIDED (machinery error)
TRUSTED = {
    "codec": ["external_body err_msg", "external_body get_origins"],
}

NOT_APPLICABLE = {
    "C01": "point-in-returned-cell is a statement about f64 projection + point-in-pentagon code (sin/cos/atan2); Verus has no float semantics and CBMC over-approximates libm, so neither a contract proof nor a bounded check is sound",
    "C02": "cell -> centre -> cell crosses the inverse and forward f64 projections; same reason as C01",
    "C03": "disjointness/cover of pentagons on the sphere is a real-geometry theorem about irrational vertex coordinates and the projection; no contract on the code expresses it without float semantics",
    "C12": "child/parent polygon overlap and centre distance: f64 geometry, out of reach of both back ends",
    "C15": "projection invertibility to 1e-12 is a numerical-analysis claim about acos/atan2/slerp code; out of reach",
    "C16": "local area preservation needs real analysis of the IVEA formulas over f64 code; out of reach",
    "C19": "authalic series inverse/monotone/odd to 1e-12: Clenshaw sums of sin/cos over f64; out of reach",
    "C04": "not built yet (tier B)", "C06": "not built yet (tier B)", "C07": "not built yet", "C08": "not built yet",
    "C09": "not built yet", "C10": "not built yet", "C11": "not built yet (tier C)", "C13": "not built yet (tier B)",
    "C14": "not built yet", "C17": "not built yet (tier B)", "C18": "not built yet (tier B)", "C20": "not built yet",
}
