"""per-property configuration of the check driver"""

K1 = {"file": "k1_origins.rs", "harness": "k1_origins", "kind": "closed-term",
      "what": "real generate_origins() == reference face table (id, first_quintant, orientation[5]) for all 12 faces; "
              "discharges the assumed contract of get_origins() (rule R6)"}

K3 = [{"file": "k3_k6_origin.rs", "harness": "k3_relabel_face%d" % i, "kind": "closed-term",
       "what": "face %d: quintant->segment->quintant and segment->quintant->segment are identities for all 5 quintants, the "
               "segment map is a permutation of 0..5, the orientation returned is the same in both directions, and both equal the "
               "frozen reference labelling (real quintant_to_segment / segment_to_quintant / is_layout_clockwise)" % i}
      for i in range(12)]
K4 = {"file": "k4_cell_area.rs", "harness": "k4_cell_area_is_sphere_over_count", "kind": "closed-term",
      "what": "for r = 0..29: |cell_area(r) - AUTHALIC_AREA / N(r)| <= 1e-12 * AUTHALIC_AREA / N(r) with N = 12, 60*4^(r-1) "
              "(IEEE * and / only), cell_area(r) bit-identical to the reference release, get_num_cells(r) identical"}
K6 = [
    {"file": "k3_k6_origin.rs", "harness": "k6_origin_tables", "kind": "closed-term",
     "what": "QUINTANT_FIRST, ORIGIN_ORDER, the four layout arrays and QUINTANT_ORIENTATIONS_ARRAYS equal the reference release"},
    {"file": "k3_k6_origin.rs", "harness": "k6_origin_floats", "kind": "closed-term",
     "what": "real generate_origins(): quat, inverse_quat, axis, angle of all 12 faces bit-identical (to_bits) to the reference release"},
    {"file": "k6_constants.rs", "harness": "k6_constants", "kind": "closed-term",
     "what": "LONGITUDE_OFFSET, constants.rs, pentagon angles A..E and the 12 QUATERNIONS bit-identical to the reference release"},
    {"file": "k6_hilbert.rs", "harness": "k6_hilbert_tables", "kind": "closed-term",
     "what": "PATTERN, PATTERN_FLIPPED, YES/NO, quaternary_to_flips (4 cases), FLIP_SHIFT equal the reference; reverse_pattern gives the inverse permutation"},
    {"file": "k6_hilbert.rs", "harness": "k6_shift_digits_table", "kind": "full-domain",
     "what": "real shift_digits equals the reference release's truth table for all 4x4 digit pairs x 4 flip states x invert_j x both patterns (complete)"},
    {"file": "k6_hilbert.rs", "harness": "k6_ij_to_quaternary_equiv", "kind": "full-domain",
     "what": "real ij_to_quaternary (which of the four sub-cells a lattice point falls in) == frozen copy of the reference release for every f64 pair with |x|,|y| <= 1e12 (lattice coordinates are < 2^30) and flip state"},
    {"file": "k6_hilbert.rs", "harness": "k6_ij_kj_equiv", "kind": "full-domain",
     "what": "real ij_to_kj / kj_to_ij == frozen copies of the reference release, bit for bit, for every f64 pair with |x|,|y| <= 1e12"},
    {"file": "k6_hilbert.rs", "harness": "k6_quaternary_to_kj", "kind": "closed-term",
     "what": "quaternary_to_kj(n, flips) equals the reference for all 4 digits x 4 flip states"},
] + [
    {"file": "k6_hilbert.rs", "harness": "k6_anchor_n%d_%s" % (n, o), "kind": "bounded", "bound": "curve depth n = %d (all %d positions), orientation %s" % (n, 4 ** n, o),
     "tiers": ("quick", "thorough") if n <= 2 else ("thorough",),
     "what": "real s_to_anchor(s, %d, %s) (f64 code) returns the reference release's anchor (k, flips, offset bits) for every s" % (n, o)}
    for n in (1, 2, 3) for o in ("uv", "vu", "uw", "wu", "vw", "wv")
] + [
    {"file": "k6_walk.rs", "harness": "k6_walk_equiv_n%d_%s" % (n, o), "kind": "bounded",
     "bound": "curve depth n = %d: every position s < 4^%d (symbolic), orientation %s" % (n, n, o),
     "tiers": ("quick", "thorough") if n <= 3 else ("thorough",),
     "what": "real s_to_anchor(s, %d, %s) == a frozen copy of the reference release's code (ref_s_to_anchor and its helpers/tables), "
             "k / flips / offset bit for bit, for every position of that depth" % (n, o)}
    for n in (3, 4, 6) for o in ("uv", "vu", "uw", "wu", "vw", "wv")
] + [
    {"file": "k6_locate.rs", "harness": "k6_locate_equiv_n%d_%s" % (n, o), "kind": "bounded",
     "bound": "curve depth n = %d: every f64 pair with |x|,|y| <= 2^%d, orientation %s" % (n, n + 1, o),
     "tiers": ("thorough",),
     "what": "real ij_to_s(IJ(x, y), %d, %s) == a frozen copy of the reference release's code (ref_ij_to_s and its helpers/tables) for "
             "every pair of f64 coordinates in the lattice range of that depth" % (n, o)}
    for n in (1, 2) for o in ("uv", "vu", "uw", "wu", "vw", "wv")
]

K17 = [{"file": "k6_hilbert.rs", "harness": "k6_ij_to_quaternary_equiv", "kind": "full-domain",
        "what": "real ij_to_quaternary (the one-level cell-location decision: thresholds a, b, c against 1.0 under the four flip states) == "
                "frozen copy of the reference release for every f64 pair with |x|,|y| <= 1e12 and every flip state (complete for one level)"},
       {"file": "k17_hilbert.rs", "harness": "k14_ij_to_quaternary_total", "kind": "full-domain",
        "what": "real ij_to_quaternary returns a digit < 4 without panic for every finite f64 pair (|u|,|v| <= 1e300) and every flip "
                "state of +-1: discharges the contract Verus unit hilbert assumes for it"},
       {"file": "k17_hilbert.rs", "harness": "k17_shift_then_unshift_is_identity", "kind": "full-domain",
        "what": "real shift_digits: for every parent/child digit pair x 4 flip states x invert_j x both patterns, shifting with P and "
                "then with reverse_pattern(P) restores the pair (complete: all 256 cases symbolic, no loop over inputs)"}] + [
    {"file": "k17_hilbert.rs", "harness": "k17_round_trip_n%d_%s" % (n, o), "kind": "bounded",
     "bound": "curve depth n = %d: every position s < 4^%d (symbolic), orientation %s" % (n, n, o),
     "tiers": ("quick", "thorough") if n <= 3 else ("thorough",), "states": 4 ** n,
     "what": "real f64 s_to_anchor / ij_to_s: the probe nudged strictly inside the lattice triangle of position s is located back at s; "
             "k in 0..3 and flips in {YES, NO}"}
    for n in (1, 2, 3, 4, 5) for o in ("uv", "vu", "uw", "wu", "vw", "wv")]

# labelled clauses that pin MORE than the property says (needed by the proofs of the clauses that do matter).  Their
# failure counts as a violation only together with an input on which the property's own oracle fails.
STRONGER_THAN_PROPERTY = {
    "cell_to_children.value": "it fixes the ORDER in which the children of one cell are listed; C07 speaks about which cells they are",
    "get_res0_cells.value": "it fixes the ORDER of the twelve base cells; C07 speaks about which cells they are",
    "uncompact.value": "it fixes the order INSIDE the block of one input cell; C09 fixes the blocks and their order only",
    "get_num_cells.negative": "it fixes the count reported for negative resolutions (0); C04 speaks about resolutions 0..29",
}

# functions whose whole contract (and hence every proof step inside them) is written over that stronger statement
STRONGER_ITEMS = {
    "cell_to_children": STRONGER_THAN_PROPERTY["cell_to_children.value"],
    "get_res0_cells": STRONGER_THAN_PROPERTY["get_res0_cells.value"],
    "uncompact": STRONGER_THAN_PROPERTY["uncompact.value"],
}

# crate-root name -> module it must be re-exported from (src/lib.rs); the contracts are on the core functions
PUBLIC_API = {
    "cell_to_boundary": "core::cell", "cell_to_lonlat": "core::cell", "lonlat_to_cell": "core::cell",
    "hex_to_u64": "core::hex", "u64_to_hex": "core::hex",
    "cell_area": "core::cell_info", "get_num_cells": "core::cell_info",
    "cell_to_children": "core::serialization", "cell_to_parent": "core::serialization",
    "get_res0_cells": "core::serialization", "get_resolution": "core::serialization",
    "compact": "core::compact", "uncompact": "core::compact",
}


def _pub(*names):
    return {n: PUBLIC_API[n] for n in names}


STD_ASSUME = [
    "64-bit target: `global size_of usize == 8`",
    "get_origins(): OnceLock returns the value of generate_origins() (std contract); its table contract is "
    "discharged by Kani harness k1_origins on the real generate_origins()",
    "error message text is not verified (format!/to_string in Err(..) replaced by err_msg(), rule R1)",
]

PROPS = {
    "C05": {
        "public_api": _pub("get_resolution", "hex_to_u64", "u64_to_hex", "cell_to_parent", "cell_to_children"),
        "units": ["codec"],
        "rlimit": 30,
        "kani": [K1],
        "level": "proof",
        "assumptions": STD_ASSUME + [
            "hex formatting/parsing sentence (u64_to_hex/hex_to_u64 are thin wrappers over core::fmt and "
            "u64::from_str_radix) is NOT decided by a contract: Verus would assume 100% of it, Kani does not get "
            "through core::fmt / from_str_radix (measured: no result in 15 min); a bounded stand-in (replay ops hex, hex_parse) "
            "runs on every check and is never counted as proved",
        ],
        "bounded_ops": [
            {"op": "hex", "budget": 3000, "what": "hexadecimal form (NOT under contract): u64_to_hex(x) is 1-16 lower-case digits without "
             "prefix / leading zeros and hex_to_u64 of it returns x, for boundary, single-bit, valid-cell and random 64-bit values - "
             "bounded stand-in"},
            {"op": "hex_parse", "budget": 3000, "what": "hexadecimal form (NOT under contract), exactly the parsing sentence of C05: "
             "hex_to_u64 never panics; the empty string and digit strings wider than 64 bits give Err (no truncated value); a canonical "
             "string parses to its value; an Ok for a plain digit string is the value of its digits. Whether signs, prefixes, upper case "
             "or other characters are accepted is not part of the property and is not checked - bounded stand-in over fixed corner "
             "strings and random short strings"},
            {"op": "cell_to_children", "budget": 3000, "what": "sentence 'every ID returned by any API call is in canonical form', hierarchy "
             "calls: PROVED under C07 / C14 (contracts of cell_to_parent / cell_to_children in unit tree); here only a bounded cross-check "
             "through the public functions (aliases, same-resolution and default-resolution calls included) so that this check also "
             "notices a non-canonical ID handed out by them"},
            {"op": "cell_to_parent", "budget": 3000, "what": "same, cell_to_parent"},
            {"op": "uncompact", "budget": 1500, "what": "same, uncompact (PROVED under C09 / C14)"},
            {"op": "compact_total", "budget": 1500, "what": "same, compact (PROVED under C08 / C14)"},
            {"op": "lonlat_to_cell", "budget": 600, "what": "same, lonlat_to_cell (PROVED under C14: an Ok result is a canonical ID of the "
             "requested resolution)"},
        ],
        "search_ops": ["roundtrip", "serialize", "deserialize", "get_resolution", "cell_to_children", "cell_to_parent"],
        "level_text": "Unbounded proof (Verus/Z3) that the real get_resolution/deserialize/serialize, extracted verbatim on "
                      "every run, equal the documented bit layout (spec fn enc/dec/res_of written from the property), plus "
                      "pure lemmas: decode(encode(c))==c for every valid cell, resolution read-back, injectivity, every "
                      "decodable pattern decodes to a valid cell whose re-encoding is the canonical ID it aliases. The face "
                      "table the codec reads is pinned by a complete closed-term Kani proof on the real generate_origins().",
        "level_note": "Assumed: get_origins() returns generate_origins()'s value (OnceLock); usize is 64 bit; error text not "
                      "verified. NOT decided: the hexadecimal sentence (u64_to_hex/hex_to_u64 are one-line wrappers over "
                      "core::fmt / from_str_radix; nothing of ours to put under contract) - see DESIGN.md.",
        "technique": "Verus contracts on extracted real functions + bit_vector lemmas; Kani closed-term harness for the face table",
    },
    "C07": {
        "public_api": _pub("cell_to_parent", "cell_to_children", "get_res0_cells", "get_resolution"),
        "units": ["tree"],
        "rlimit": 30,
        "level": "proof",
        "assumptions": STD_ASSUME + [
            "the face table contract of get_origins() is assumed here (discharged under C05/C06 by Kani k1_origins); C07 only "
            "needs first_quintant < 5, which that contract implies",
            "usize::pow / u64::pow / u64::saturating_pow under assumed std contracts (no-overflow precondition proved at call sites)",
            "`(0..12).collect()` replaced by the verified helper range_u8_vec(0, 12) (item-local rewrite, assumed equivalent)",
            "fan-out above 4^8 per call is out of the property's scope: cell_to_children may return Err there (it does beyond 4^20)",
        ],
        "search_ops": ["cell_to_children", "cell_to_parent", "get_res0_cells"],
        "level_text": "Unbounded proof (Verus/Z3) on the real cell_to_parent, cell_to_children (three nested loops closed by "
                      "invariants over a sequence-valued spec), get_res0_cells: results equal the specification's ancestor / "
                      "children sequence for every u64 and every Option<i32>; plus lemmas over that specification: children are "
                      "exactly the valid cells of the target resolution whose ancestor is c (both inclusions), pairwise distinct, "
                      "count == 12/5/4-per-level fan-out, ancestor composes, ancestor is the iterated parent, children of "
                      "children == children at the deeper level, every cell has exactly one parent which lists it.",
        "level_note": "Assumed: std pow contracts, OnceLock face table (see C05), error text. The codec functions' contracts "
                      "(serialize/deserialize/get_resolution) are re-verified inside the unit; a failure there is attributed to C05 "
                      "and makes this check UNDECIDED (exit 2), not a C07 alarm.",
        "technique": "Verus contracts + loop invariants on extracted real functions; inductive lemmas over sequence specs",
    },
    "C08": {
        "public_api": _pub("compact", "uncompact"),
        "units": ["compact"],
        "rlimit": 30,
        "level": "proof",
        "assumptions": STD_ASSUME + [
            "the three std-collection statements of compact() (HashSet collect, into_iter().collect(), sort_unstable) are replaced "
            "by stubs with assumed contracts (rule R5): set equality, no duplicates, sorted permutation, Vec<u64> length <= isize::MAX/8",
            "order / multiplicity independence is an obligation (no assumption on the compaction loops): the working list after the "
            "sort is the unique scan-ordered enumeration s of the input SET, the scan loop computes the spec function pass_from, the "
            "outer loop iter_pass(s, n), and thm_compact_order_independent derives equal result lists for inputs with equal canonical "
            "sets; what remains assumed is only the std HashSet / sort stubs above",
            "no-duplicates is proved for EVERY list of valid cells (invariant: the working list stays strictly ordered by the scan key; "
            "a parent's key lies strictly between its first and last child's) - after the fix: commit c5e0418, which repaired the "
            "former findings F1/F2 (base cells / world cell sorted away from their children)",
        ],
        "search_ops": ["compact_cover", "compact_total"],
        "level_text": "Unbounded proof (Verus/Z3) on the real compact(), fixed point and scan loops closed by invariants over an abstract "
                      "covered-set: Err iff some input is not a cell; for every list of cells (non-canonical aliases included) the result is Ok, consists of canonical IDs no finer than the inputs, and "
                      "covers exactly the same cells at every resolution at least as fine as all inputs (each merge is shown to replace "
                      "exactly the complete set of children of the parent it inserts); the result has no duplicates and is in scan "
                      "order; the working list after dedup+sort is the unique scan-ordered enumeration of the input set, and the result is "
                      "a function of that enumeration alone (spec iter_pass), hence independent of input order and multiplicity.",
        "level_note": "std HashSet/sort under assumed contracts; callee contracts (get_resolution, is_first_child, get_stride, "
                      "cell_to_parent, scan_key) verified in the same unit.",
        "technique": "Verus contract + loop invariants (abstract covered set, antichain) on the extracted real compact()",
    },
    "C09": {
        "public_api": _pub("uncompact", "cell_to_parent", "get_resolution"),
        "units": ["compact"],
        "rlimit": 30,
        "level": "proof",
        "assumptions": STD_ASSUME + [
            "`result.extend(children)` replaced by the verified helper vec_extend (Vec::append); Vec::with_capacity / push under vstd's std contracts",
            "scope precondition uncompact_scope: per-input fan-out <= 4^8 (the property's bound) and list length <= 2^40; "
            "allocation failure is not modelled",
        ],
        "search_ops": ["uncompact", "uncompact_total"],
        "level_text": "Unbounded proof (Verus/Z3) that the real uncompact (both loops closed by invariants) returns Err for every "
                      "target outside -1..29 and whenever some input is finer than the target, and otherwise exactly "
                      "flat(inputs) = the concatenation, in input order, of each input's children sequence (or the input itself "
                      "at equal resolution); lemmas: per input the outputs are pairwise distinct, are exactly the valid cells of "
                      "the target resolution whose ancestor is the input, and the total length is the sum of the fan-outs.",
        "level_note": "Callee contracts (get_resolution, get_num_children, cell_to_children) are verified in the same unit. "
                      "The pre-count n is only a capacity hint; it is shown not to overflow inside the scope.",
        "technique": "Verus contract + loop invariants on the extracted real uncompact; lemmas over the C07 children spec",
    },
    "C14": {
        "public_api": dict(PUBLIC_API),
        "units": ["compact", "glue", "hilbert", "origin", "shape"],
        "kani": [k for k in K17 if k["harness"] == "k14_ij_to_quaternary_total"],
        "bounded_ops": [
            {"op": "lonlat_to_cell", "budget": 600, "what": "bounded cross-check of the float-layer assumptions on the real code: for "
             "extreme and random lon/lat x i32 resolutions, and at / a hair off the 12 face centres, 20 vertices and 30 edge midpoints of "
             "the frame, lonlat_to_cell returns, and an Ok result is a canonical ID of the requested resolution"},
        ],
        "rlimit": 30,
        "level": "proof",
        "assumptions": STD_ASSUME + [
            "float layer (projections, tiling, pentagon geometry) assumed total; only the integer arguments handed to it are obligations",
            "the curve walk (unit hilbert: quaternary_to_flips, shift_digits, reverse_pattern, s_to_anchor_internal, s_to_anchor, "
            "ij_to_s_internal, ij_to_s) is verified panic-free, in bounds and terminating with its f64 coordinate arithmetic replaced by "
            "opaque stubs (item-local rewrites listed in the evidence): digits stay < 4, flips stay +-1, the panic arms of "
            "quaternary_to_flips are unreachable, the located position is < 4^depth; this discharges what unit glue assumes for "
            "s_to_anchor / ij_to_s (depth <= 28, s < 4^depth). quaternary_to_kj and ij_to_quaternary remain stubs (their panic arms "
            "become preconditions, proved at the call sites)",
            "lonlat_to_cell and lonlat_to_estimate are verified (Err for resolutions outside -1..29; an Ok result is a canonical ID of "
            "the requested resolution; cells[0] exists; the estimate carries the requested resolution, a face id < 12 and a segment "
            "< 5; ij_to_s is called with a depth in 1..=28) with their float expressions (sampling spiral, rotation into the first "
            "fifth, scaling), HashSet and sort_by replaced by stubs (item-local rewrites listed in the evidence); the float callees "
            "(find_nearest_origin, projection, to_polar, get_quintant_polar, quintant_to_segment, face_to_ij, ij_to_s) are external "
            "stubs with ASSUMED integer contracts (table element, quintant < 5, segment < 5)",
            "allocation failure not modelled; calls whose honest fan-out exceeds 4^8 are out of scope (uncompact_scope)",
            "internal functions (serialize, is_first_child, get_stride, get_num_children) carry preconditions derived from "
            "their call sites; each is an obligation at every call site in the units",
        ],
        "search_ops": ["cell_to_parent", "cell_to_children", "uncompact_total", "compact_total", "get_num_cells",
                       "lonlat_to_cell", "cell_to_lonlat", "cell_to_boundary"],
        "level_text": "Every public integer-layer function (get_resolution, cell_to_parent, cell_to_children, get_res0_cells, "
                      "get_num_cells, uncompact) is verified by Verus with NO precondition on its u64 / i32 / Option<i32> "
                      "arguments: Verus' built-in obligations (no arithmetic overflow, shift amount < 64, index in bounds, "
                      "unwrap/panic unreachable, decreases on every loop) are exactly 'never panics, overflows or fails to "
                      "terminate' in both build profiles, and the functional postconditions give 'Err, or a canonical ID of the "
                      "requested resolution'.",
        "level_note": "Eight genuine defects found this way were repaired by fix: commits (known_findings.json 'fixed'). "
                      "The float layer is assumed total.",
        "technique": "Verus default safety obligations + rejects/value postconditions on extracted real functions, no preconditions on public API",
    },
    "C11": {
        "public_api": _pub("cell_to_boundary"),
        "units": ["glue", "shape"],
        "rlimit": 30,
        "level": "proof",
        "assumptions": STD_ASSUME + [
            "float callees are contract boundaries: normalize_longitudes / Vec::reverse preserve length and the projection inverse is "
            "total (ASSUMED). The counting contracts that unit glue uses - tiling.rs get_quintant_vertices returns 3 vertices, "
            "get_face_vertices / get_pentagon_vertices 5 (transform_pentagon keeps the count), PentagonShape::new / new_triangle 5 / 3, "
            "split_edges count * max(n,1), from_vertices, get_vertices_vec, and scale / rotate180 / reflect_y / translate keep the count "
            "and return self - are DISCHARGED on the real functions in unit shape, with their float content as stubs (matrix products, "
            "interpolation, the winding test, clone; the per-vertex in-place map loops `for vertex in &mut self.vertices` are replaced "
            "by one stub assumed to keep the length: Verus has no specification for slice::IterMut). Still ASSUMED there: the lazily "
            "built constants pentagon() / triangle() are five-vertex shapes; [T; N]::to_vec keeps the length",
            "item-local rewrites of cell_to_boundary listed in evidence (unwrap_or_default, unwrap_or_else closure, .max(), iterator "
            "for-loops -> index loops, thread-local projector -> stub)",
            "ONLY the ring-length / closure sentence is decided (proved); finite coordinates, latitude range, orientation, centre "
            "containment, 180-degree window and corner stability are float geometry: no contract decides them, a BOUNDED sampled "
            "stand-in (replay op boundary_geometry) runs on every check and is never counted as proved",
        ],
        "bounded_ops": [
            {"op": "boundary_geometry", "budget": 2000, "what": "BOUNDED stand-in (sampled; not a proof) for the float sentences of C11: for "
             "every cell of resolutions 0..2, cells around the meridians 87E / 93W (where the internal azimuth wraps), the antimeridian, "
             "the polar caps down to 1e-5 degrees from a pole and random cells of every resolution, with 1, 2 and 4 segments per edge: "
             "coordinates finite, |latitude| <= 90, corner points of the 1-segment ring are points of the finer rings (1e-9 degrees), "
             "counter-clockwise orientation and reported centre inside the ring (signed spherical excess of every fan triangle "
             "around the centre, valid at the poles), and - unless a pole lies within the cell's circumscribed circle - all longitudes "
             "within a 180-degree window"},
        ],
        "search_ops": ["cell_to_boundary", "boundary_geometry"],
        "level_text": "Proof (Verus/Z3) on the real cell_to_boundary and get_pentagon that for every u64 and every options value the "
                      "result is Err for non-cells, empty for world-cell aliases, and otherwise has exactly vertices*n (+1 when closed) "
                      "points with n = max(segments, 1) or the resolution-dependent default, and a closed ring repeats its first point.",
        "level_note": "The counting / closure logic of cell_to_boundary and the vertex counts of the shapes it receives (tiling.rs, "
                      "geometry/pentagon.rs, unit shape) are proved; the float sentences (finite, latitude range, orientation, centre "
                      "inside, longitude window, stable corners) only have a sampled bounded stand-in (boundary_geometry).",
        "technique": "Verus contracts on the extracted real cell_to_boundary / get_pentagon (unit glue) and on the shape-producing "
                     "functions of tiling.rs and geometry/pentagon.rs (unit shape), float arithmetic as stubs",
    },
    "C10": {
        "public_api": _pub("compact"),
        "units": ["compact"],
        "rlimit": 30,
        "level": "proof",
        "assumptions": STD_ASSUME + [
            "proved for every non-overlapping list of valid cells (base cells and the world cell included) after fix: commit c5e0418; "
            "on the pinned tree inputs mixing base cells with other faces' quintants were a genuine defect (former finding F1)",
            "std HashSet / sort_unstable under assumed contracts (rule R5), see C08",
            "decided: (maximal) the result contains no complete sibling group; (idempotent, as a set) a list on whose sorted "
            "enumeration the sibling test fails everywhere is returned as that enumeration, and a maximal list of valid cells is such "
            "a list in any order (thm_idempotent); (canonical) two maximal non-overlapping lists of valid cells covering the same "
            "cells are the same set (thm_canonical, mechanised: deepest-descendant argument), composed with compact()'s contract in "
            "thm_compact_canonical. The result is in scan order, so compacting it again returns the identical list",
        ],
        "bounded_ops": [
            {"op": "compact_max", "budget": 400, "what": "cross-check on the real code (bounded, not counted): result == unique normal "
             "form and recompaction changes nothing as a set, on generated non-overlapping inputs of the proved class"},
        ],
        "search_ops": ["compact_max"],
        "level_text": "Unbounded proof (Verus/Z3) on the real compact(): invariant 'the working list is ordered by leaf intervals' "
                      "(the ID interval a cell's descendants occupy; a parent's interval is tiled by its children's) plus 'in the "
                      "last pass the sibling test failed at every position' give: every complete sibling group would sit at "
                      "consecutive positions starting with a first child and would have been merged - so none survives.",
        "level_note": "The proof reuses the C20 interval lemmas (subtree == ID interval); scan_key() is extracted and verified.",
        "technique": "Verus loop invariants (interval order, failed-test prefix) on the extracted real compact() + tiling lemmas",
    },
    "C13": {
        "public_api": dict(PUBLIC_API),
        "units": ["memo"],
        "state_inventory": {
            "pattern": r"(?<!')\bstatic\s+mut\b|thread_local!|OnceLock|LazyLock|lazy_static!|\bCell<|RefCell<|Mutex<|RwLock<|Atomic[A-Z]\w*|\bunsafe\b|UnsafeCell",
            "expected": {"src/projections/dodecahedron.rs": 2, "src/core/pentagon.rs": 2, "src/core/hilbert.rs": 1, "src/core/origin.rs": 3},
            "what": "frame condition of the purity argument: the only places where the crate keeps state between calls are the per-thread "
                    "DodecahedronProjection (thread_local! + one unsafe deref; its caches are under contract in unit memo), and three "
                    "initialise-once constants (PENTAGON_CONSTANTS LazyLock, the hilbert lazy_static patterns, ORIGINS OnceLock). A "
                    "mechanical scan of src/ for static mut / thread_local! / OnceLock / LazyLock / lazy_static! / Cell / RefCell / "
                    "Mutex / RwLock / Atomic* / unsafe must find exactly this inventory; anything else makes the check UNDECIDED "
                    "(never an alarm by itself)",
        },
        "level": "proof",
        "assumptions": [
            "ONLY single-thread history independence of the projection object (its two lazily filled caches, 30 + 240 slots, and its "
            "forward / inverse methods) is decided by proof; the rest of the API only by the bounded purity op",
            "ASSUMED, not decided: thread_local! gives each thread its own DodecahedronProjection; get_thread_local() hands out "
            "&'static mut from a raw pointer (unsafe; aliasing discipline not checked); OnceLock / lazy_static initialise once with the "
            "initialiser's value. Kani has no threads and Verus would need the code rewritten over its permission types - the schedule "
            "half of C13 is out of reach of this technique",
            "ASSUMED: the float callees (get_base_face_triangle, get_reflected_face_triangle, compute_spherical_triangle) are "
            "deterministic functions of their explicit arguments (spec_ft / spec_st) and compute_spherical_triangle preserves the "
            "invariant; CRS::invocations (a counter) does not flow into results",
            "no precondition on origin_id any more: with the fix: commit f47c526 (defect F18: ids 12..23 aliased reflected slots) "
            "get_spherical_triangle / inverse are proved history-independent for every u8 origin id (Err for ids >= 12)",
        ],
        "bounded_ops": [
            {"op": "purity", "budget": 400, "timeout": 900, "what": "whole public API, BOUNDED stand-in for the sentences no contract here can "
             "decide: several hundred lonlat_to_cell / cell_to_lonlat / cell_to_boundary / get_num_cells / cell_area calls give "
             "bit-identical answers as the first call of a fresh thread, after the other calls in the same thread (call, reverse and "
             "shuffled order), while six threads use the library at the same time in different orders (schedule uncontrolled: "
             "exploration), and in fresh threads after other threads used the library; back-to-back calls on cells whose curve "
             "position differs in one bit are part of the sequence"},
            {"op": "proj_history", "budget": 100, "timeout": 300, "what": "BOUNDED replay of the memo contracts on the public projection "
             "object: DodecahedronProjection::inverse(p, id) gives the same answer from a fresh object and from one that served 240 other "
             "calls, for origin ids 0..40, 63, 127, 128, 200, 255 x 40 face points (defect F18 lived at ids 12..23)"},
        ],
        "search_ops": ["proj_history", "purity"],
        "level_text": "Proof (Verus/Z3) on the real get_face_triangle, get_spherical_triangle, get_face_triangle_index, forward and inverse "
                      "of DodecahedronProjection (&mut self, Vec<Option<_>> caches): representation invariant 'every filled slot holds "
                      "the value of its own key' is preserved, the memo functions return spec(key) whatever the cache contents and "
                      "change only their own slot, and forward()/inverse() return spec_forward/spec_inverse - a composition of the "
                      "(assumed deterministic) float callees that does not mention the cache: history independence on one thread.",
        "level_note": "The slot-index arithmetic (idx + 10/20, 10*origin + idx + 120) is what the proof pins: any collision between "
                      "two keys breaks the invariant or the result postcondition.",
        "technique": "Verus representation invariant + frame conditions on extracted real &mut self methods",
    },
    "C17": {
        "units": ["hilbert"],
        "kani": K17,
        "kani_jobs": 14,
        "kani_timeout": 6000,
        "level": "model_checking",
        "assumptions": [
            "the position <-> anchor round trip is a BOUNDED stand-in (curve depth n <= 3 quick, <= 5 thorough; all 4^n positions symbolic, "
            "6 orientations), never counted as proved: an unbounded proof needs the real-valued invariant 'the probe stays in the current "
            "sub-triangle at every level' over f64 code, which Verus cannot state (no float semantics)",
            "CBMC is bit-precise for f64 + - * / and comparisons; no transcendental function occurs on this path",
            "pentagon centres lie in the quintant triangle and the pentagon CENTRE maps back to s: no contract decides it (irrational "
            "basis; PENTAGON constants use cos/sin/atan2); BOUNDED sampled stand-in only (replay op pentagon_centre, depths 1..29)",
            "the digit-shift step is proved completely (full-domain harness k17_shift_then_unshift_is_identity)",
            "Verus unit hilbert (unbounded, all depths): the digit machinery of both directions keeps digits quaternary and flips +-1, "
            "never indexes out of bounds, terminates, and ij_to_s returns a position < 4^depth ('no position outside the range'); "
            "the f64 coordinate arithmetic is stubbed there, so this says nothing about WHICH position is returned",
        ],
        "bounded_ops": [
            {"op": "curve_roundtrip", "budget": 20000, "timeout": 900, "what": "deep curve levels (BOUNDED stand-in, beyond the depth Kani reaches): "
             "for every depth 1..29 x 6 orientations, the digit-pattern families (all-0, all-3, alternating, one repeated digit, single "
             "digit d*4^k and its neighbours) and random positions: position -> anchor -> nudged probe -> position is the identity on "
             "the real code"},
            {"op": "pentagon_centre", "budget": 20000, "timeout": 900, "what": "BOUNDED stand-in (sampled; same position families, depths "
             "1..29 x 6 orientations): the centre (get_center) of the pentagon get_pentagon_vertices(n, 0, s_to_anchor(s, n, o)) lies inside "
             "the quintant triangle (get_quintant_vertices(0).contains_point > 0) and, scaled into the depth-n lattice, is located "
             "back at s by ij_to_s(face_to_ij(..), n, o)"},
        ],
        "search_ops": ["curve_roundtrip", "pentagon_centre", "reference"],
        "level_text": "Kani/CBMC on the real f64 hilbert.rs: (complete) the digit-shift pass is undone by the reversed pattern for "
                      "every digit pair, flip state, invert_j and both patterns; (bounded) for every curve position of depth n <= 3 "
                      "(quick) / <= 5 (thorough) and each of the six orientations the lattice cell of position s is located back "
                      "at s, hence positions map to pairwise distinct cells with none unused at those depths.",
        "level_note": "Level model_checking because the deciding part for the bijection is bounded by curve depth; see assumptions.",
        "technique": "Kani full-domain harness (digit shift) + bounded Kani harnesses over all positions of depth n (round trip)",
    },
    "C18": {
        "units": ["origin"],
        "rlimit": 30,
        "kani": K3 + [K1],
        "kani_jobs": 14,
        "level": "proof",
        "assumptions": [
            "ONLY the sentence 'on every face the quintant <-> segment relabelling is a bijection that preserves the curve orientation "
            "in both directions' is decided (finite: 12 faces x 5 quintants, enumerated completely by closed-term Kani harnesses on the "
            "real functions, and for every face record by Verus unit origin). Nearest-face selection: the real find_nearest_origin is "
            "PROVED (Verus) to return a face-table entry that no other entry beats under the code's own distance function and `<` "
            "(haversine as an uninterpreted function returning a finite number, IEEE `<` assumed transitive and irreflexive); that this "
            "distance function is monotone in the great-circle distance, the regular-dodecahedron geometry of the frame and the "
            "93-degree offset are f64 geometry (sin/acos/atan2): no contract decides them, BOUNDED stand-ins (replay ops frame, "
            "nearest_face) run on every check and are never counted as proved.",
            "K3 builds each face's Origin from the reference (first_quintant, orientation) table; K1 proves the real generate_origins() "
            "produces exactly that table; the relabelling functions read no other field",
            "Verus unit origin (second, independent route, for EVERY face record with first_quintant < 5 and a 5-entry layout, either "
            "winding): the real quintant_to_segment / segment_to_quintant compute the documented relabelling (seg_of / quint_of), the two "
            "are mutually inverse on 0..5 and read the same layout slot in both directions (thm_relabel_inverse, "
            "thm_relabel_orientation); is_layout_clockwise (slice comparison against the two clockwise tables) is an opaque boolean "
            "there - which faces wind clockwise is pinned by Kani K3/K1, not by Verus",
        ],
        "bounded_ops": [
            {"op": "frame", "budget": 1, "what": "BOUNDED stand-in (closed term, f64 oracle with tolerance 1e-9 rad) for the frame sentence, "
             "not a proof: the 12 face axes of the real get_origins() are antipodal pairs, each has exactly 5 neighbours at atan(2) = "
             "63.435 degrees, exactly one is the north pole; the 12 base cells are centred (cell_to_lonlat) on their face centres; the "
             "upper ring sits at longitudes -93 + 72 k, the lower at -57 + 72 k"},
            {"op": "nearest_face", "budget": 20000, "what": "BOUNDED stand-in (sampled) for the nearest-face sentence: for points on both "
             "sides of all 30 seams (0.005 .. 2 degrees off the seam, 0 .. 17 degrees along it), the 12 face centres and random points, "
             "find_nearest_origin and lonlat_to_cell(p, 0) pick the face whose centre has the smallest great-circle angle (own "
             "trigonometry; points closer than 1e-9 rad to a tie are skipped)"},
        ],
        "search_ops": ["reference", "frame", "nearest_face"],
        "level_text": "Verus: the real quintant_to_segment / segment_to_quintant equal the documented relabelling and are mutually inverse, "
                      "orientation-preserving bijections of 0..5 for every face record. "
                      "Complete finite proof (Kani/CBMC, no symbolic input, unwinding assertions on) on the real quintant_to_segment, "
                      "segment_to_quintant and is_layout_clockwise: for each of the 12 faces and 5 quintants both round trips are "
                      "identities, the segment map is a permutation and the orientation is preserved both ways; the face table used is "
                      "proved equal to the real generate_origins() output by K1.",
        "level_note": "Closed-term harnesses are complete (the input space is the 60 (face, quintant) pairs). Frame geometry and "
                      "nearest-face selection: not decided (float).",
        "technique": "Verus contracts on the functions extracted from origin.rs + Kani closed-term harnesses (complete enumeration) "
                     "appended to the real origin.rs",
    },
    "C04": {
        "public_api": _pub("cell_area", "get_num_cells"),
        "units": ["tree"],
        "rlimit": 30,
        "kani": [K4],
        "level": "proof",
        "assumptions": STD_ASSUME + [
            "ONLY sentence 2 ('the per-resolution area reported by the metadata call equals sphere area / number of cells') is decided "
            "(proved); areas measured from cell boundaries (sentence 1) are f64 geometry: no contract decides them, a BOUNDED sampled "
            "stand-in (replay op cell_area_measured) runs on every check and is never counted as proved",
        ],
        "bounded_ops": [
            {"op": "cell_area", "budget": 1, "what": "through the crate-root export a5::cell_area, resolutions -5..40 in descending, random "
             "and ascending order: returns for every resolution, and for 0..29 finite, positive and equal to AUTHALIC_AREA / N(r) to "
             "1e-12 (bounded cross-check of the public path; the proofs above are on core::cell_info)"},
            {"op": "get_num_cells", "budget": 1, "what": "through the crate-root export a5::get_num_cells, same orders: 12, 60*4^(r-1) "
             "(exact to r = 27, 1e-15 relative for 28/29), no panic for any i32 (the value for resolutions outside 0..29 is not "
             "part of C04)"},
            {"op": "cell_area_measured", "budget": 2000, "what": "BOUNDED stand-in (sampled; not a proof) for sentence 1: the area of the "
             "reported boundary (32 segments per edge, 256 for resolutions <= 3; spherical excess of a triangle fan on the authalic "
             "sphere, closed-form WGS84 authalic latitude written here) equals sphere / N(r) to 1e-4 relative, for cells at 0 .. 10 "
             "degrees from the 12 face centres, at the face vertices and edge midpoints (resolutions 0 .. 29) and random cells"},
        ],
        "search_ops": ["cell_area", "get_num_cells", "cell_area_measured"],
        "level_text": "Verus: the real get_num_cells returns 12, 60*4^(r-1) exactly for r <= 27 and values within 1e-15 relative for the "
                      "two JS-rounded literals (28, 29), without overflow for any i32. Kani closed-term (complete, r = 0..29): the real "
                      "cell_area(r) equals AUTHALIC_AREA / N(r) to 1e-12 relative with N the exact count. Sentence 1 (areas measured from "
                      "reported boundaries) is float geometry outside any contract: a sampled bounded stand-in (cell_area_measured) runs "
                      "with every check and is not part of the proof.",
        "level_note": "IEEE multiplication/division are bit-precise in CBMC; no transcendental function is involved. The level 'proof' "
                      "refers to sentence 2 only.",
        "technique": "Verus contract on get_num_cells + Kani closed-term harness on cell_area",
    },
    "C06": {
        "public_api": _pub("lonlat_to_cell", "cell_to_lonlat", "cell_to_boundary", "get_resolution"),
        "units": ["codec"],
        "reference_identity": {
            "ref": "contracts/reference/src_v0.6.2_full/src",
            "expected_changed": ["core/cell.rs::cell_to_boundary", "core/cell.rs::cell_to_lonlat", "core/cell.rs::lonlat_to_cell",
                                 "core/cell_info.rs::get_num_cells", "core/compact.rs::compact", "core/compact.rs::uncompact",
                                 "core/compact.rs::scan_key", "core/coordinate_transforms.rs::to_spherical",
                                 "core/serialization.rs::cell_to_children", "core/serialization.rs::cell_to_parent",
                                 "core/serialization.rs::serialize"],
            "what": "functions whose text (comments and white space aside) equals the frozen copy of the reference release behave as in "
                    "the reference release for every input, by identity; those that differ are carried by the harnesses / bounded "
                    "stand-ins only. expected_changed = the functions touched by the recorded fix: commits. Informational: never "
                    "changes the exit code",
        },
        "rlimit": 30,
        "kani": [K1, K4] + K3 + K6,
        "kani_jobs": 14,
        "kani_timeout": 2400,
        "level": "proof",
        "assumptions": STD_ASSUME + [
            "the pin is the frozen reference under /verif/contracts/reference (dump + source copies of v0.6.2, pinned tree d731376) and "
            "the harnesses generated from it ONCE by tools/mkref.py; checks never regenerate it",
            "decided: every table / literal constant / integer stage that fixes which ID goes with which place equals the reference "
            "(bit layout via serialize == enc, face table, relabelling, digit-shift patterns, flip tables, quaternary_to_kj, literal "
            "constants, cell_area, s_to_anchor for curve depth <= 2 quick / <= 3 thorough - the last is BOUNDED)",
            "NOT decided by any contract: that the f64 pipeline (polyhedral / gnomonic / authalic functions, pentagon constants computed "
            "with sin/cos, ij_to_s on real coordinates) computes the same values as the reference for all inputs, and the 'within 1e-9 "
            "degrees' sentence. BOUNDED stand-in only (replay op reference_geo, never counted as proved): for the 3311 cells of the "
            "frozen dump contracts/reference/geo_dump_v0.6.2.txt (produced ONCE by running the pinned reference release: all cells of "
            "resolutions 0 and 1, cells around the wrap meridians / antimeridian / face centres at resolutions 2..29, 3000 random cells of "
            "resolutions 0..29, centres within 89.5 degrees of latitude) this tree reports the same centre and the same corner points to "
            "1e-9 degrees and maps the reference centre back to the same ID; and for its 4880 point lookups (2880 points 100 m .. 5 km "
            "off the 30 seams, alternating sides, resolutions 0 / 1 / 15 / 29; 2000 random points, half of them at resolutions 22..29) "
            "lonlat_to_cell returns the reference ID when the file is replayed in order in one process",
        ],
        "bounded_ops": [
            {"op": "reference_geo", "budget": 1, "what": "BOUNDED stand-in (frozen sample from the reference release: 3311 cells of "
             "resolutions 0..29 and 4880 point lookups): cell_to_lonlat and the corners of cell_to_boundary agree with the reference "
             "release to 1e-9 degrees, lonlat_to_cell(reference centre) and every recorded point lookup return the reference ID"},
        ],
        "search_ops": ["reference", "roundtrip", "reference_geo"],
        "level_text": "Proof that the integer labelling stages equal the frozen reference release: Verus (bit layout of the real "
                      "serialize/deserialize/get_resolution == documented layout with the reference face table) and complete closed-term "
                      "Kani harnesses on the real code (face table and frames bit-for-bit, relabelling 12x5, digit-shift and flip tables, "
                      "literal constants, cell_area). The curve walk s_to_anchor is compared with a frozen copy of the reference code for "
                      "all positions of depth <= 3 (quick) / <= 6 (thorough): bounded, labelled so. The property's main sentence - same ID "
                      "for every point, same centre and corners to 1e-9 degrees - runs through the f64 pipeline and is NOT proved: a "
                      "bounded stand-in over a frozen sample of 8191 reference outputs runs with every check.",
        "level_note": "See assumptions: float pipeline and the 1e-9-degree sentence are out of reach of both back ends; a bounded "
                      "stand-in over a frozen sample of reference outputs runs on every check.",
        "technique": "Verus layout contract + Kani closed-term equalities against a frozen reference; bounded Kani for the curve walk",
    },
    "C20": {
        "public_api": _pub("cell_to_parent", "cell_to_children", "get_resolution"),
        "units": ["tree"],
        "rlimit": 30,
        "level": "proof",
        "assumptions": STD_ASSUME,
        "search_ops": ["order", "order_children", "is_first_child", "get_stride", "cell_to_children", "cell_to_parent"],
        "level_text": "Unbounded proof (Verus/Z3): lemmas over the layout specification that the real serialize is proved to "
                      "implement - among cells of resolution >= 1 the subtree of a cell is exactly one open ID interval "
                      "(both directions), descendants of a precede descendants of b for a<b of equal resolution, ancestors at "
                      "every level 1..r are ordered; plus functional contracts on the real is_first_child and get_stride.",
        "level_note": "Pure lemmas over spec fn enc (bit_vector + linear arithmetic); tied to the code through serialize's "
                      "postcondition res == Ok(enc(norm(c))) (C05). Base-cell exception is part of the statement (resolution >= 1).",
        "technique": "Verus lemmas (bit_vector) over the encoder specification + contracts on is_first_child/get_stride",
    },
}

# item name -> replay ops used to look for a failing input when an obligation of that item fails
SEARCH_OPS = {
    "get_resolution": ["get_resolution", "roundtrip"],
    "serialize": ["serialize", "roundtrip"],
    "deserialize": ["deserialize", "roundtrip"],
    "cell_to_parent": ["cell_to_parent"],
    "cell_to_children": ["cell_to_children"],
    "get_res0_cells": ["get_res0_cells"],
    "is_first_child": ["is_first_child"],
    "get_stride": ["get_stride"],
    "get_num_cells": ["get_num_cells", "cell_area"],
    "get_num_children": ["get_num_children"],
    "uncompact": ["uncompact", "uncompact_total"],
    "compact": ["compact_cover", "compact_max", "compact_total"],
    "k1_origins": ["roundtrip", "deserialize"],
    "k4_cell_area_is_sphere_over_count": ["cell_area", "get_num_cells"],
    "get_pentagon": ["cell_to_lonlat", "cell_to_boundary"],
    "cell_to_lonlat": ["cell_to_lonlat"],
    "cell_to_boundary": ["cell_to_boundary"],
    "a5cell_contains_point": ["lonlat_to_cell"],
    "origin": ["cell_to_lonlat"],
}

# allow-list of assumptions per generated unit ("<what> <name>"); anything else -> UNDECIDED (machinery error)
TRUSTED = {
    "codec": ["external_body err_msg", "external_body get_origins"],
    "tree": ["external_body err_msg", "external_body get_origins", "assume_specification usize::pow",
             "assume_specification u64::pow", "assume_specification u64::saturating_pow"],
    "glue": None,
    "memo": None,
    "origin": None,
    "hilbert": None,
    "shape": None,
    "compact": ["external_body err_msg", "external_body get_origins", "assume_specification usize::pow",
                "assume_specification u64::pow", "assume_specification u64::saturating_pow",
                "external_body U64Set", "external_body with_capacity", "external_body insert", "external_body std_set_into_vec",
                "external_body std_sort_by_scan_key"],
}

NOT_APPLICABLE = {
    "C01": "point-in-returned-cell is a statement about f64 projection + point-in-pentagon code (sin/cos/atan2); Verus has no float semantics and CBMC over-approximates libm, so neither a contract proof nor a symbolic bounded check is sound; a purely sampled test would be a different technique family. What is provable about lonlat_to_cell (Err / canonical ID of the requested resolution, no integer-layer panic) is claimed under C14",
    "C02": "cell -> centre -> cell crosses the inverse and forward f64 projections; same reason as C01",
    "C03": "disjointness/cover of pentagons on the sphere is a real-geometry theorem about irrational vertex coordinates and the projection; no contract on the code expresses it without float semantics",
    "C12": "child/parent polygon overlap and centre distance: f64 geometry, out of reach of both back ends",
    "C15": "projection invertibility to 1e-12 is a numerical-analysis claim about acos/atan2/slerp code; out of reach",
    "C16": "local area preservation needs real analysis of the IVEA formulas over f64 code; out of reach",
    "C19": "authalic series inverse/monotone/odd to 1e-12: Clenshaw sums of sin/cos over f64; out of reach",
}
