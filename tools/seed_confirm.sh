#!/bin/bash
# usage: seed_confirm.sh <seed-id> <prop> [<prop>...]
# The recorded confirmation, done the prescribed way: apply the patch to /repo itself, run the registered checks,
# undo it straight afterwards.  Appends the outcome to seeded/<id>/meta.json ("checks_run").
set -u
ID=$1; shift
cd /verif
if [ -n "$(git -C /repo status --porcelain)" ]; then echo "/repo is not clean"; exit 9; fi
trap 'git -C /repo checkout -- . ; git -C /repo clean -fdq src 2>/dev/null' EXIT
git -C /repo apply /verif/seeded/$ID/patch.diff || { echo "$ID apply-failed"; exit 9; }
RES=""
for P in "$@"; do
  out=$(VERIF_OUT=/var/tmp/seedconfirm-out timeout 3000 ./check $P 2>&1); rc=$?
  line=$(echo "$out" | grep -E "^(VIOLATION|UNDECIDED|OK)" | head -1 | cut -c1-220)
  wit=$(echo "$out" | grep -E "^  (failing input|proof undecided|[a-z_]+ )" | head -2 | tr '\n' ' ' | cut -c1-300)
  echo "== $ID $P rc=$rc :: $line :: $wit"
  RES="$RES$P|$rc|$line|$wit
"
done
git -C /repo checkout -- .
python3 - "$ID" "$RES" <<'PY'
import json,sys
sid,res=sys.argv[1],sys.argv[2]
p='/verif/seeded/%s/meta.json'%sid
m=json.load(open(p))
m["checks_run"]=[{"property":a,"exit":int(b),"verdict":c,"witness":d} for a,b,c,d in (l.split('|',3) for l in res.strip().split('\n') if l)]
m["checks_run_how"]="git -C /repo apply seeded/%s/patch.diff ; ./check <property> ; git -C /repo checkout -- ."%sid
json.dump(m,open(p,'w'),indent=1)
PY
