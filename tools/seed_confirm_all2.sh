#!/bin/bash
# Prescribed confirmation of every stored seed: patch applied to /repo ITSELF, registered check run, patch undone.
# The checks come from a frozen clone of /verif (commit recorded below) so that /verif can be edited meanwhile.
F=/var/tmp/verif-frozen
OUT=/var/tmp/confirm_results.txt
: > $OUT
echo "verif_commit $(git -C $F rev-parse --short HEAD) repo_head $(git -C /repo rev-parse --short HEAD)" >> $OUT
declare -A EXTRA=( [C05-3]="C07 C14" [C08-2]="C20" [C10-2]="C20" [C20-1]="C05" [C20-3]="C07" [C04-1]="C13" [C18-1]="C06" )
trap 'git -C /repo checkout -- . ; git -C /repo clean -fdq src 2>/dev/null' EXIT
for d in /verif/seeded/*/; do
  id=$(basename $d); p=${id%-*}
  if [ -n "$(git -C /repo status --porcelain)" ]; then echo "$id /repo not clean - abort" >> $OUT; exit 9; fi
  git -C /repo apply $F/seeded/$id/patch.diff 2>/dev/null || { echo "$id|$p|apply-failed||" >> $OUT; continue; }
  for P in $p ${EXTRA[$id]:-}; do
    out=$(cd $F && VERIF_OUT=/var/tmp/seedconfirm-out VERIF_BUILD=/var/tmp/seedconfirm-build timeout 3000 ./check $P 2>&1); rc=$?
    line=$(echo "$out" | grep -E "^(VIOLATION|UNDECIDED|OK)" | head -1 | cut -c1-240)
    wit=$(echo "$out" | grep -E "^  (failing input|proof undecided|[a-z_]+ )" | head -2 | tr '\n' ' ' | tr '|' '/' | cut -c1-300)
    echo "$id|$P|$rc|$line|$wit" >> $OUT
  done
  git -C /repo checkout -- . ; git -C /repo clean -fdq src 2>/dev/null
done
echo "DONE" >> $OUT
