#!/usr/bin/env python3
"""merge the result lines of the prescribed in-/repo confirmation run (tools/seed_confirm_all2.sh) into seeded/*/meta.json"""
import json, sys, collections
src = sys.argv[1] if len(sys.argv) > 1 else "/var/tmp/confirm_results.txt"
lines = open(src).read().strip().split("\n")
head = lines[0]
by = collections.OrderedDict()
for l in lines[1:]:
    if l == "DONE" or "|" not in l:
        continue
    sid, prop, rc, verdict, wit = (l.split("|", 4) + ["", ""])[:5]
    by.setdefault(sid, []).append({"property": prop, "exit": int(rc) if rc.isdigit() else rc, "verdict": verdict.strip(), "witness": wit.strip()})
for sid, rs in by.items():
    p = "/verif/seeded/%s/meta.json" % sid
    m = json.load(open(p))
    m["checks_run"] = rs
    m["checks_run_how"] = ("prescribed method: git -C /repo apply seeded/%s/patch.diff ; ./check <property> ; git -C /repo checkout -- .  "
                           "(checks taken from a frozen clone of /verif, %s)" % (sid, head))
    json.dump(m, open(p, "w"), indent=1)
caught = [s for s, rs in by.items() if any(r["exit"] == 1 and r["property"] == s.split("-")[0] for r in rs)]
print("seeds:", len(by), "caught by their own property's check:", len(caught))
print("not caught:", [s for s in by if s not in caught])
