#!/bin/bash
# usage: seed_store.sh <Cxx>   -- copy validated seeds from /tmp/seeded/<Cxx>/<k> into /verif/seeded/<Cxx>-<k>
P=$1
for d in /tmp/seeded/$P/[0-9]; do id=$P-$(basename $d); mkdir -p /verif/seeded/$id; cp $d/patch.diff $d/demo.rs /verif/seeded/$id/; python3 - "$d" "/verif/seeded/$id" <<'PY'
import json,sys
src,dst=sys.argv[1],sys.argv[2]
try: m=json.load(open(src+'/meta.json'))
except Exception as e: m={"property":src.split('/')[-2],"summary":"(meta.json of the sub-agent unreadable: %s)"%e}
m["produced_by"]="independent sub-agent given only the property text and a scratch worktree"
m["validated_by_me"]={"worktree":"scratch git worktree of /repo HEAD","commands":["git apply patch.diff","cargo test --offline --no-fail-fast  -> 150 passed, 0 failed","cargo test --offline --test seed_demo (demo.rs copied to tests/) -> FAILED with the patch","same demo on the clean tree -> ok"]}
json.dump(m,open(dst+'/meta.json','w'),indent=1)
PY
done
git -C /repo worktree remove --force /tmp/wt-$P 2>/dev/null
ls /verif/seeded | grep $P | tr '\n' ' '
