//@append src/core/coordinate_transforms.rs
// K6(constants) -- literal constants bit-identical to the reference release v0.6.2.  tools/mkref.py, one-time.
#[cfg(kani)]
mod verif_k6_consts {
    use super::*;

    #[kani::proof]
    fn k6_constants() {
        assert!(LONGITUDE_OFFSET.to_bits() == 93.0f64.to_bits());
        assert!(crate::core::constants::PHI.to_bits() == (1.618033988749895 as f64).to_bits());
        assert!(crate::core::constants::DISTANCE_TO_EDGE.to_bits() == (0.6180339887498949 as f64).to_bits());
        assert!(crate::core::constants::DISTANCE_TO_VERTEX.to_bits() == (0.7639320225002102 as f64).to_bits());
        assert!(crate::core::constants::R_INSCRIBED.to_bits() == (1.0 as f64).to_bits());
        assert!(crate::core::constants::R_MIDEDGE.to_bits() == (1.1755705045849463 as f64).to_bits());
        assert!(crate::core::constants::R_CIRCUMSCRIBED.to_bits() == (1.2584085723648188 as f64).to_bits());
        assert!(crate::core::constants::DIHEDRAL_ANGLE.get().to_bits() == (2.0344439357957027 as f64).to_bits());
        assert!(crate::core::constants::INTERHEDRAL_ANGLE.get().to_bits() == (1.1071487177940904 as f64).to_bits());
        assert!(crate::core::constants::FACE_EDGE_ANGLE.get().to_bits() == (1.0172219678978514 as f64).to_bits());
        assert!(crate::core::constants::TWO_PI.get().to_bits() == (std::f64::consts::TAU as f64).to_bits());
        assert!(crate::core::constants::TWO_PI_OVER_5.get().to_bits() == (std::f64::consts::TAU / 5.0 as f64).to_bits());
        assert!(crate::core::constants::PI_OVER_5.get().to_bits() == (std::f64::consts::PI / 5.0 as f64).to_bits());
        assert!(crate::core::constants::PI_OVER_10.get().to_bits() == (std::f64::consts::PI / 10.0 as f64).to_bits());
        assert!(crate::core::pentagon::A.get().to_bits() == (72.0 as f64).to_bits());
        assert!(crate::core::pentagon::B.get().to_bits() == (127.94543761193603 as f64).to_bits());
        assert!(crate::core::pentagon::C.get().to_bits() == (108.0 as f64).to_bits());
        assert!(crate::core::pentagon::D.get().to_bits() == (82.29202980963508 as f64).to_bits());
        assert!(crate::core::pentagon::E.get().to_bits() == (149.7625318412527 as f64).to_bits());
        let rq: [[f64; 4]; 12] = [ [0.0, 0.0, 0.0, 1.0], [0.0, 0.5257311121191336, 0.0, 0.8506508083520399], [-0.5, 0.16245984811645314, 0.0, 0.8506508083520399], [ -0.30901699437494745, -0.42532540417602, 0.0, 0.8506508083520399, ], [ 0.30901699437494745, -0.42532540417602, 0.0, 0.8506508083520399, ], [0.5, 0.16245984811645314, 0.0, 0.8506508083520399], [0.0, -0.8506508083520399, 0.0, 0.5257311121191336], [ 0.8090169943749475, -0.2628655560595668, 0.0, 0.5257311121191336, ], [0.5, 0.6881909602355868, 0.0, 0.5257311121191336], [-0.5, 0.6881909602355868, 0.0, 0.5257311121191336], [ -0.8090169943749475, -0.2628655560595668, 0.0, 0.5257311121191336, ], [0.0, -1.0, 0.0, 0.0], ];
        let mut i = 0;
        while i < 12 { let mut j = 0; while j < 4 { assert!(crate::core::dodecahedron_quaternions::QUATERNIONS[i][j].to_bits() == rq[i][j].to_bits()); j += 1; } i += 1; }
    }
}
