//@append src/core/origin.rs
// K1 -- closed-term obligation (no symbolic input, complete): the real generate_origins() produces
// the reference face table assumed by the Verus contract of get_origins() (rule R6).
#[cfg(kani)]
mod verif_k1 {
    use super::*;
    use crate::core::hilbert::Orientation as O;

    const REF_FQ: [usize; 12] = [4, 2, 3, 0, 2, 4, 2, 2, 3, 0, 3, 0];
    const REF_LAYOUT: [[O; 5]; 12] = [
        [O::VU, O::UW, O::VW, O::VW, O::VW],
        [O::VU, O::UV, O::WV, O::WU, O::UW],
        [O::WU, O::UV, O::WV, O::WU, O::UW],
        [O::WU, O::UV, O::WV, O::WU, O::UW],
        [O::WU, O::UW, O::VW, O::VU, O::UW],
        [O::VU, O::UV, O::WV, O::WU, O::UW],
        [O::WU, O::UW, O::VW, O::VU, O::UW],
        [O::WU, O::UW, O::VW, O::VU, O::UW],
        [O::WU, O::UV, O::WV, O::WU, O::UW],
        [O::VU, O::UV, O::WV, O::WU, O::UW],
        [O::VU, O::UV, O::WV, O::WU, O::UW],
        [O::WU, O::UW, O::VW, O::VU, O::UW],
    ];

    #[kani::proof]
    #[kani::unwind(14)]
    fn k1_origins() {
        let o = generate_origins();
        assert!(o.len() == 12);
        let mut i = 0;
        while i < 12 {
            assert!(o[i].id as usize == i);
            assert!(o[i].first_quintant == REF_FQ[i]);
            assert!(o[i].orientation.len() == 5);
            let mut k = 0;
            while k < 5 {
                assert!(o[i].orientation[k] == REF_LAYOUT[i][k]);
                k += 1;
            }
            i += 1;
        }
    }
}
