//@append src/core/hilbert.rs
// K6(walk) -- the real curve walk s_to_anchor equals a FROZEN COPY of the reference release's code (renamed ref_*),
// for every position of a given depth (symbolic s).  BOUNDED by the depth.  tools/mkref.py, one-time.
#[cfg(kani)]
mod verif_k6_walk {
    use super::*;

    fn ref_s_to_anchor(s: u64, resolution: usize, orientation: Orientation) -> Anchor {
        let input = s;
        let reverse = matches!(
            orientation,
            Orientation::VU | Orientation::WU | Orientation::VW
        );
        let invert_j = matches!(orientation, Orientation::WV | Orientation::VW);
        let flip_ij = matches!(orientation, Orientation::WU | Orientation::UW);
    
        let adjusted_input = if reverse {
            (1u64 << (2 * resolution)) - input - 1
        } else {
            input
        };
    
        let mut anchor = ref_s_to_anchor_internal(adjusted_input, resolution, invert_j, flip_ij);
    
        if flip_ij {
            let i = anchor.offset.x();
            let j = anchor.offset.y();
            anchor.offset = IJ::new(j, i);
    
            // The flips moved the origin of the cell, shift to compensate
            if anchor.flips[0] == YES {
                anchor.offset = IJ::new(
                    anchor.offset.x() + REF_FLIP_SHIFT.x(),
                    anchor.offset.y() + REF_FLIP_SHIFT.y(),
                );
            }
            if anchor.flips[1] == YES {
                anchor.offset = IJ::new(
                    anchor.offset.x() - REF_FLIP_SHIFT.x(),
                    anchor.offset.y() - REF_FLIP_SHIFT.y(),
                );
            }
        }
    
        if invert_j {
            let i = anchor.offset.x();
            let j = anchor.offset.y();
            let new_j = (1 << resolution) as f64 - (i + j);
            anchor.flips[0] = -anchor.flips[0];
            anchor.offset = IJ::new(i, new_j);
        }
    
        anchor
    }
    
    fn ref_s_to_anchor_internal(s: u64, resolution: usize, invert_j: bool, flip_ij: bool) -> Anchor {
        let mut offset = REF_ZERO;
        let mut flips = [NO, NO];
        let mut input = s;
    
        // Get all quaternary digits first
        let mut digits = Vec::new();
        while input > 0 || digits.len() < resolution {
            digits.push((input % 4) as Quaternary);
            input >>= 2;
        }
    
        let pattern = if flip_ij { &REF_PATTERN_FLIPPED } else { &REF_PATTERN };
    
        // Process digits from left to right (most significant first)
        for i in (0..digits.len()).rev() {
            ref_shift_digits(&mut digits, i, flips, invert_j, pattern);
            let next_flips = ref_quaternary_to_flips(digits[i]);
            flips[0] *= next_flips[0];
            flips[1] *= next_flips[1];
        }
    
        flips = [NO, NO]; // Reset flips for the next loop
        for i in (0..digits.len()).rev() {
            // Scale up existing anchor
            offset = KJ::new(offset.x() * 2.0, offset.y() * 2.0);
    
            // Get child anchor and combine with current anchor
            let child_offset = ref_quaternary_to_kj(digits[i], flips);
            offset = KJ::new(offset.x() + child_offset.x(), offset.y() + child_offset.y());
    
            let next_flips = ref_quaternary_to_flips(digits[i]);
            flips[0] *= next_flips[0];
            flips[1] *= next_flips[1];
        }
    
        let k = digits.first().copied().unwrap_or(0);
    
        Anchor {
            flips,
            k,
            offset: ref_kj_to_ij(offset),
        }
    }
    
    fn ref_shift_digits(
        digits: &mut [Quaternary],
        i: usize,
        flips: [Flip; 2],
        invert_j: bool,
        pattern: &[usize],
    ) {
        if i == 0 {
            return;
        }
    
        let parent_k = digits[i];
        let child_k = digits[i - 1];
        let f = flips[0] + flips[1];
    
        // Detect when cells need to be shifted
        let needs_shift: bool;
        let first: bool;
    
        // The value of F which cells need to be shifted
        // The rule is flipped depending on the orientation, specifically on the value of invert_j
        if invert_j != (f == 0) {
            needs_shift = parent_k == 1 || parent_k == 2; // Second & third pentagons only
            first = parent_k == 1; // Second pentagon is first
        } else {
            needs_shift = parent_k < 2; // First two pentagons only
            first = parent_k == 0; // First pentagon is first
        }
    
        if !needs_shift {
            return;
        }
    
        // Apply the pattern by setting the digits based on the value provided
        let src = if first {
            child_k as usize
        } else {
            child_k as usize + 4
        };
        let dst = pattern[src];
        digits[i - 1] = (dst % 4) as Quaternary;
        digits[i] = ((parent_k as usize + 4 + dst / 4 - src / 4) % 4) as Quaternary;
    }
    
    fn ref_quaternary_to_flips(n: Quaternary) -> [Flip; 2] {
        match n {
            0 => [NO, NO],
            1 => [NO, YES],
            2 => [NO, NO],
            3 => [YES, NO],
            _ => panic!("Invalid Quaternary value: {}", n),
        }
    }
    
    fn ref_quaternary_to_kj(n: Quaternary, flips: [Flip; 2]) -> KJ {
        let [flip_x, flip_y] = flips;
    
        // Indirection to allow for flips
        let (p, q) = match (flip_x, flip_y) {
            (NO, NO) => (REF_K_POS, REF_J_POS),
            (YES, NO) => (REF_J_NEG, REF_K_NEG),  // Swap and negate
            (NO, YES) => (REF_J_POS, REF_K_POS),  // Swap only
            (YES, YES) => (REF_K_NEG, REF_J_NEG), // Negate only
            _ => panic!("Invalid flip values"),
        };
    
        match n {
            0 => REF_ZERO,                                              // Length 0
            1 => p,                                                 // Length 1
            2 => KJ::new(q.x() + p.x(), q.y() + p.y()),             // Length SQRT2
            3 => KJ::new(q.x() + 2.0 * p.x(), q.y() + 2.0 * p.y()), // Length SQRT5
            _ => panic!("Invalid Quaternary value: {}", n),
        }
    }
    
    fn ref_kj_to_ij(kj: KJ) -> IJ {
        IJ::new(kj.x() - kj.y(), kj.y())
    }
    
    fn ref_reverse_pattern(pattern: &[usize]) -> Vec<usize> {
        let mut result = vec![0; pattern.len()];
        for (i, &val) in pattern.iter().enumerate() {
            result[val] = i;
        }
        result
    }
    
    const REF_PATTERN_FLIPPED: [usize; 8] = [0, 1, 2, 7, 3, 4, 5, 6];
    const REF_PATTERN: [usize; 8] = [0, 1, 3, 4, 5, 6, 7, 2];
    const REF_FLIP_SHIFT: IJ = IJ(crate::coordinate_systems::vec2::Vec2 { x: -1.0, y: 1.0 });
    const REF_K_POS: KJ = KJ(crate::coordinate_systems::vec2::Vec2 { x: 1.0, y: 0.0 });
    const REF_J_POS: KJ = KJ(crate::coordinate_systems::vec2::Vec2 { x: 0.0, y: 1.0 });
    const REF_K_NEG: KJ = KJ(crate::coordinate_systems::vec2::Vec2 { x: -1.0, y: 0.0 });
    const REF_J_NEG: KJ = KJ(crate::coordinate_systems::vec2::Vec2 { x: 0.0, y: -1.0 });
    const REF_ZERO: KJ = KJ(crate::coordinate_systems::vec2::Vec2 { x: 0.0, y: 0.0 });
    

    fn walk_equiv(n: usize, o: Orientation) {
        let s: u64 = kani::any();
        kani::assume(s < (1u64 << (2 * n)));
        let a = s_to_anchor(s, n, o);
        let b = ref_s_to_anchor(s, n, o);
        assert!(a.k == b.k && a.flips[0] == b.flips[0] && a.flips[1] == b.flips[1]);
        assert!(a.offset.x().to_bits() == b.offset.x().to_bits() && a.offset.y().to_bits() == b.offset.y().to_bits());
    }

    #[kani::proof]
    #[kani::unwind(12)]
    fn k6_walk_equiv_n3_uv() { walk_equiv(3, Orientation::UV); }
    #[kani::proof]
    #[kani::unwind(12)]
    fn k6_walk_equiv_n3_vu() { walk_equiv(3, Orientation::VU); }
    #[kani::proof]
    #[kani::unwind(12)]
    fn k6_walk_equiv_n3_uw() { walk_equiv(3, Orientation::UW); }
    #[kani::proof]
    #[kani::unwind(12)]
    fn k6_walk_equiv_n3_wu() { walk_equiv(3, Orientation::WU); }
    #[kani::proof]
    #[kani::unwind(12)]
    fn k6_walk_equiv_n3_vw() { walk_equiv(3, Orientation::VW); }
    #[kani::proof]
    #[kani::unwind(12)]
    fn k6_walk_equiv_n3_wv() { walk_equiv(3, Orientation::WV); }
    #[kani::proof]
    #[kani::unwind(12)]
    fn k6_walk_equiv_n4_uv() { walk_equiv(4, Orientation::UV); }
    #[kani::proof]
    #[kani::unwind(12)]
    fn k6_walk_equiv_n4_vu() { walk_equiv(4, Orientation::VU); }
    #[kani::proof]
    #[kani::unwind(12)]
    fn k6_walk_equiv_n4_uw() { walk_equiv(4, Orientation::UW); }
    #[kani::proof]
    #[kani::unwind(12)]
    fn k6_walk_equiv_n4_wu() { walk_equiv(4, Orientation::WU); }
    #[kani::proof]
    #[kani::unwind(12)]
    fn k6_walk_equiv_n4_vw() { walk_equiv(4, Orientation::VW); }
    #[kani::proof]
    #[kani::unwind(12)]
    fn k6_walk_equiv_n4_wv() { walk_equiv(4, Orientation::WV); }
    #[kani::proof]
    #[kani::unwind(12)]
    fn k6_walk_equiv_n6_uv() { walk_equiv(6, Orientation::UV); }
    #[kani::proof]
    #[kani::unwind(12)]
    fn k6_walk_equiv_n6_vu() { walk_equiv(6, Orientation::VU); }
    #[kani::proof]
    #[kani::unwind(12)]
    fn k6_walk_equiv_n6_uw() { walk_equiv(6, Orientation::UW); }
    #[kani::proof]
    #[kani::unwind(12)]
    fn k6_walk_equiv_n6_wu() { walk_equiv(6, Orientation::WU); }
    #[kani::proof]
    #[kani::unwind(12)]
    fn k6_walk_equiv_n6_vw() { walk_equiv(6, Orientation::VW); }
    #[kani::proof]
    #[kani::unwind(12)]
    fn k6_walk_equiv_n6_wv() { walk_equiv(6, Orientation::WV); }
}
