//@append src/core/cell_info.rs
// K4 + K6(cell_info) -- closed-term obligations (complete).  tools/mkref.py, one-time.
#[cfg(kani)]
mod verif_k4 {
    use super::*;

    const REF_AREA_BITS: [u64; 31] = [0x42c35449aeb071f7, 0x429eed42b11a4ff1, 0x427eed42b11a4ff1, 0x425eed42b11a4ff1, 0x423eed42b11a4ff2, 0x421eed42b11a4ff1, 0x41feed42b11a4ff1, 0x41deed42b11a4ff1, 0x41beed42b11a4ff1, 0x419eed42b11a4ff1, 0x417eed42b11a4ff1, 0x415eed42b11a4ff1, 0x413eed42b11a4ff0, 0x411eed42b11a4ff1, 0x40feed42b11a4ff1, 0x40deed42b11a4ff1, 0x40beed42b11a4ff1, 0x409eed42b11a4ff0, 0x407eed42b11a4ff1, 0x405eed42b11a4ff0, 0x403eed42b11a4ff1, 0x401eed42b11a4ff1, 0x3ffeed42b11a4ff1, 0x3fdeed42b11a4ff1, 0x3fbeed42b11a4ff1, 0x3f9eed42b11a4ff1, 0x3f7eed42b11a4ff1, 0x3f5eed42b11a4ff1, 0x3f3eed42b11a4ff1, 0x3f1eed42b11a4ff0, 0x3efeed42b11a4ff0];
    const REF_CELLS: [u64; 31] = [12, 60, 240, 960, 3840, 15360, 61440, 245760, 983040, 3932160, 15728640, 62914560, 251658240, 1006632960, 4026531840, 16106127360, 64424509440, 257698037760, 1030792151040, 4123168604160, 16492674416640, 65970697666560, 263882790666240, 1055531162664960, 4222124650659840, 16888498602639360, 67553994410557440, 270215977642229760, 1080863910568919000, 4323455642275676000, 17293822569102705000];

    #[kani::proof]
    #[kani::unwind(33)]
    fn k4_cell_area_is_sphere_over_count() {
        // C04 sentence 2: cell_area(r) == authalic sphere area / (12 | 60*4^(r-1)) to 1e-12 relative, r = 0..29
        // (IEEE multiplication / division only: bit-precise in CBMC)
        let mut r = 0i32;
        let mut n: f64 = 12.0;
        while r <= 29 {
            let q = AUTHALIC_AREA / n;
            let a = cell_area(r);
            let d = if a > q { a - q } else { q - a };
            assert!(d <= q * 1e-12);
            assert!(a.to_bits() == REF_AREA_BITS[r as usize]);          // C06: same value as the reference release
            assert!(get_num_cells(r) == REF_CELLS[r as usize]);
            n = if r == 0 { 60.0 } else { n * 4.0 };
            r += 1;
        }
        assert!(AUTHALIC_AREA.to_bits() == 510065624779439.1f64.to_bits());
    }
}
