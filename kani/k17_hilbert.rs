//@append src/core/hilbert.rs
// K17 -- C17: curve position <-> cell bijection, lattice level, on the REAL f64 code of hilbert.rs.
#[cfg(kani)]
mod verif_k17 {
    use super::*;

    /// COMPLETE (full domain, loop-free in the inputs): for every parent/child digit pair, every flip state, both
    /// values of invert_j and both digit-shift patterns, shifting with P and then with reverse_pattern(P) under
    /// the same flip state restores the pair -- the step that makes ij_to_s undo s_to_anchor's digit shifting.
    #[kani::proof]
    #[kani::unwind(10)]
    fn k17_shift_then_unshift_is_identity() {
        let child: u8 = kani::any();
        let parent: u8 = kani::any();
        kani::assume(child < 4 && parent < 4);
        let fx: bool = kani::any();
        let fy: bool = kani::any();
        let flips: [Flip; 2] = [if fx { YES } else { NO }, if fy { YES } else { NO }];
        let invert_j: bool = kani::any();
        let flipped: bool = kani::any();
        let fwd: &[usize] = if flipped { &PATTERN_FLIPPED } else { &PATTERN };
        let rev = reverse_pattern(fwd);
        let mut d = [child, parent];
        shift_digits(&mut d, 1, flips, invert_j, fwd);
        assert!(d[0] < 4 && d[1] < 4);
        // the inverse pass sees the flip state with the (shifted) parent digit's own flips already removed,
        // i.e. the same state the forward pass used at this position
        shift_digits(&mut d, 1, flips, invert_j, &rev);
        assert!(d[0] == child && d[1] == parent);
    }

    /// COMPLETE (full domain, loop-free): the one-level location decision returns a quaternary digit and does not
    /// panic for EVERY pair of finite f64 coordinates (|u|, |v| <= 1e300, so that u + v is finite; CBMC flags NaN
    /// arithmetic) and every flip state of +-1 -- the contract `ensures r < 4` that Verus unit `hilbert` assumes
    /// for ij_to_quaternary (its f64 comparisons are outside Verus).
    #[kani::proof]
    fn k14_ij_to_quaternary_total() {
        let u: f64 = kani::any();
        let v: f64 = kani::any();
        kani::assume(u >= -1e300 && u <= 1e300 && v >= -1e300 && v <= 1e300);
        let fx: bool = kani::any();
        let fy: bool = kani::any();
        let flips: [Flip; 2] = [if fx { YES } else { NO }, if fy { YES } else { NO }];
        let d = ij_to_quaternary(IJ::new(u, v), flips);
        assert!(d < 4);
    }

    fn nudge(a: &Anchor) -> IJ {
        let [flip_x, flip_y] = a.flips;
        if flip_x == NO && flip_y == NO {
            IJ::new(a.offset.x() + 0.1, a.offset.y() + 0.1)
        } else if flip_x == YES && flip_y == NO {
            IJ::new(a.offset.x() + 0.1, a.offset.y() - 0.2)
        } else if flip_x == NO && flip_y == YES {
            IJ::new(a.offset.x() - 0.1, a.offset.y() + 0.2)
        } else {
            IJ::new(a.offset.x() - 0.1, a.offset.y() - 0.1)
        }
    }

    /// BOUNDED by the curve depth n: for EVERY position s < 4^n (symbolic) the probe placed strictly inside the
    /// lattice triangle of s_to_anchor(s) (the nudge of the repository's own test) is located back at s.
    /// Gives injectivity of s -> anchor and "no position unused" at depth n.
    fn round_trip(n: usize, o: Orientation) {
        let s: u64 = kani::any();
        kani::assume(s < (1u64 << (2 * n)));
        let a = s_to_anchor(s, n, o);
        assert!(a.k < 4);
        assert!((a.flips[0] == YES || a.flips[0] == NO) && (a.flips[1] == YES || a.flips[1] == NO));
        let back = ij_to_s(nudge(&a), n, o);
        assert!(back == s);
    }
    #[kani::proof]
    #[kani::unwind(12)]
    fn k17_round_trip_n1_uv() { round_trip(1, Orientation::UV); }
    #[kani::proof]
    #[kani::unwind(12)]
    fn k17_round_trip_n1_vu() { round_trip(1, Orientation::VU); }
    #[kani::proof]
    #[kani::unwind(12)]
    fn k17_round_trip_n1_uw() { round_trip(1, Orientation::UW); }
    #[kani::proof]
    #[kani::unwind(12)]
    fn k17_round_trip_n1_wu() { round_trip(1, Orientation::WU); }
    #[kani::proof]
    #[kani::unwind(12)]
    fn k17_round_trip_n1_vw() { round_trip(1, Orientation::VW); }
    #[kani::proof]
    #[kani::unwind(12)]
    fn k17_round_trip_n1_wv() { round_trip(1, Orientation::WV); }
    #[kani::proof]
    #[kani::unwind(12)]
    fn k17_round_trip_n2_uv() { round_trip(2, Orientation::UV); }
    #[kani::proof]
    #[kani::unwind(12)]
    fn k17_round_trip_n2_vu() { round_trip(2, Orientation::VU); }
    #[kani::proof]
    #[kani::unwind(12)]
    fn k17_round_trip_n2_uw() { round_trip(2, Orientation::UW); }
    #[kani::proof]
    #[kani::unwind(12)]
    fn k17_round_trip_n2_wu() { round_trip(2, Orientation::WU); }
    #[kani::proof]
    #[kani::unwind(12)]
    fn k17_round_trip_n2_vw() { round_trip(2, Orientation::VW); }
    #[kani::proof]
    #[kani::unwind(12)]
    fn k17_round_trip_n2_wv() { round_trip(2, Orientation::WV); }
    #[kani::proof]
    #[kani::unwind(12)]
    fn k17_round_trip_n3_uv() { round_trip(3, Orientation::UV); }
    #[kani::proof]
    #[kani::unwind(12)]
    fn k17_round_trip_n3_vu() { round_trip(3, Orientation::VU); }
    #[kani::proof]
    #[kani::unwind(12)]
    fn k17_round_trip_n3_uw() { round_trip(3, Orientation::UW); }
    #[kani::proof]
    #[kani::unwind(12)]
    fn k17_round_trip_n3_wu() { round_trip(3, Orientation::WU); }
    #[kani::proof]
    #[kani::unwind(12)]
    fn k17_round_trip_n3_vw() { round_trip(3, Orientation::VW); }
    #[kani::proof]
    #[kani::unwind(12)]
    fn k17_round_trip_n3_wv() { round_trip(3, Orientation::WV); }
    #[kani::proof]
    #[kani::unwind(12)]
    fn k17_round_trip_n4_uv() { round_trip(4, Orientation::UV); }
    #[kani::proof]
    #[kani::unwind(12)]
    fn k17_round_trip_n4_vu() { round_trip(4, Orientation::VU); }
    #[kani::proof]
    #[kani::unwind(12)]
    fn k17_round_trip_n4_uw() { round_trip(4, Orientation::UW); }
    #[kani::proof]
    #[kani::unwind(12)]
    fn k17_round_trip_n4_wu() { round_trip(4, Orientation::WU); }
    #[kani::proof]
    #[kani::unwind(12)]
    fn k17_round_trip_n4_vw() { round_trip(4, Orientation::VW); }
    #[kani::proof]
    #[kani::unwind(12)]
    fn k17_round_trip_n4_wv() { round_trip(4, Orientation::WV); }
    #[kani::proof]
    #[kani::unwind(12)]
    fn k17_round_trip_n5_uv() { round_trip(5, Orientation::UV); }
    #[kani::proof]
    #[kani::unwind(12)]
    fn k17_round_trip_n5_vu() { round_trip(5, Orientation::VU); }
    #[kani::proof]
    #[kani::unwind(12)]
    fn k17_round_trip_n5_uw() { round_trip(5, Orientation::UW); }
    #[kani::proof]
    #[kani::unwind(12)]
    fn k17_round_trip_n5_wu() { round_trip(5, Orientation::WU); }
    #[kani::proof]
    #[kani::unwind(12)]
    fn k17_round_trip_n5_vw() { round_trip(5, Orientation::VW); }
    #[kani::proof]
    #[kani::unwind(12)]
    fn k17_round_trip_n5_wv() { round_trip(5, Orientation::WV); }
}
