//@append src/core/hilbert.rs
// K6(locate) -- the real ij_to_s (lattice point -> curve position) equals a FROZEN COPY of the reference release's code
// for EVERY pair of f64 coordinates within the depth's lattice range.  BOUNDED by the depth.  tools/mkref.py, one-time.
#[cfg(kani)]
mod verif_k6_locate {
    use super::*;

    fn ref_ij_to_s(input: IJ, resolution: usize, orientation: Orientation) -> u64 {
        let reverse = matches!(
            orientation,
            Orientation::VU | Orientation::WU | Orientation::VW
        );
        let invert_j = matches!(orientation, Orientation::WV | Orientation::VW);
        let flip_ij = matches!(orientation, Orientation::WU | Orientation::UW);
    
        let mut ij = input;
        if flip_ij {
            ij = IJ::new(input.y(), input.x());
        }
        if invert_j {
            let i = ij.x();
            let j = ij.y();
            ij = IJ::new(i, (1 << resolution) as f64 - (i + j));
        }
    
        let s = ref_ij_to_s_internal(ij, invert_j, flip_ij, resolution);
        if reverse {
            (1u64 << (2 * resolution)) - s - 1
        } else {
            s
        }
    }
    
    fn ref_ij_to_s_internal(input: IJ, invert_j: bool, flip_ij: bool, resolution: usize) -> u64 {
        // Get number of digits we need to process
        let num_digits = resolution;
        let mut digits = vec![0u8; num_digits];
    
        let mut flips = [NO, NO];
        let mut pivot = IJ::new(0.0, 0.0);
    
        // Process digits from left to right (most significant first)
        for i in (0..num_digits).rev() {
            let relative_offset = IJ::new(input.x() - pivot.x(), input.y() - pivot.y());
    
            let scale = 1.0 / (1u64 << i) as f64;
            let scaled_offset = IJ::new(relative_offset.x() * scale, relative_offset.y() * scale);
    
            let digit = ref_ij_to_quaternary(scaled_offset, flips);
            digits[i] = digit;
    
            // Update running state
            let child_offset = ref_kj_to_ij(ref_quaternary_to_kj(digit, flips));
            let upscaled_child_offset = IJ::new(
                child_offset.x() * (1u64 << i) as f64,
                child_offset.y() * (1u64 << i) as f64,
            );
            pivot = IJ::new(
                pivot.x() + upscaled_child_offset.x(),
                pivot.y() + upscaled_child_offset.y(),
            );
    
            let next_flips = ref_quaternary_to_flips(digit);
            flips[0] *= next_flips[0];
            flips[1] *= next_flips[1];
        }
    
        let pattern: &[usize] = if flip_ij {
            &REF_PATTERN_FLIPPED_REVERSED
        } else {
            &REF_PATTERN_REVERSED
        };
    
        for i in 0..digits.len() {
            let next_flips = ref_quaternary_to_flips(digits[i]);
            flips[0] *= next_flips[0];
            flips[1] *= next_flips[1];
            ref_shift_digits(&mut digits, i, flips, invert_j, pattern);
        }
    
        let mut output = 0u64;
        for (i, &digit) in digits.iter().enumerate().rev() {
            let scale = 1u64 << (2 * i);
            output += (digit as u64) * scale;
        }
    
        output
    }
    
    fn ref_ij_to_quaternary(ij: IJ, flips: [Flip; 2]) -> Quaternary {
        let u = ij.x();
        let v = ij.y();
        let digit: Quaternary;
    
        // Boundaries to compare against
        let a = if flips[0] == YES { -(u + v) } else { u + v };
        let b = if flips[1] == YES { -u } else { u };
        let c = if flips[0] == YES { -v } else { v };
    
        // Only one flip
        if flips[0] + flips[1] == 0 {
            if c < 1.0 {
                digit = 0;
            } else if b > 1.0 {
                digit = 3;
            } else if a > 1.0 {
                digit = 2;
            } else {
                digit = 1;
            }
        // No flips or both
        } else if a < 1.0 {
            digit = 0;
        } else if b > 1.0 {
            digit = 3;
        } else if c > 1.0 {
            digit = 2;
        } else {
            digit = 1;
        }
    
        digit
    }
    
    fn ref_shift_digits(
        digits: &mut [Quaternary],
        i: usize,
        flips: [Flip; 2],
        invert_j: bool,
        pattern: &[usize],
    ) {
        if i == 0 {
            return;
        }
    
        let parent_k = digits[i];
        let child_k = digits[i - 1];
        let f = flips[0] + flips[1];
    
        // Detect when cells need to be shifted
        let needs_shift: bool;
        let first: bool;
    
        // The value of F which cells need to be shifted
        // The rule is flipped depending on the orientation, specifically on the value of invert_j
        if invert_j != (f == 0) {
            needs_shift = parent_k == 1 || parent_k == 2; // Second & third pentagons only
            first = parent_k == 1; // Second pentagon is first
        } else {
            needs_shift = parent_k < 2; // First two pentagons only
            first = parent_k == 0; // First pentagon is first
        }
    
        if !needs_shift {
            return;
        }
    
        // Apply the pattern by setting the digits based on the value provided
        let src = if first {
            child_k as usize
        } else {
            child_k as usize + 4
        };
        let dst = pattern[src];
        digits[i - 1] = (dst % 4) as Quaternary;
        digits[i] = ((parent_k as usize + 4 + dst / 4 - src / 4) % 4) as Quaternary;
    }
    
    fn ref_quaternary_to_flips(n: Quaternary) -> [Flip; 2] {
        match n {
            0 => [NO, NO],
            1 => [NO, YES],
            2 => [NO, NO],
            3 => [YES, NO],
            _ => panic!("Invalid Quaternary value: {}", n),
        }
    }
    
    fn ref_quaternary_to_kj(n: Quaternary, flips: [Flip; 2]) -> KJ {
        let [flip_x, flip_y] = flips;
    
        // Indirection to allow for flips
        let (p, q) = match (flip_x, flip_y) {
            (NO, NO) => (REF_K_POS, REF_J_POS),
            (YES, NO) => (REF_J_NEG, REF_K_NEG),  // Swap and negate
            (NO, YES) => (REF_J_POS, REF_K_POS),  // Swap only
            (YES, YES) => (REF_K_NEG, REF_J_NEG), // Negate only
            _ => panic!("Invalid flip values"),
        };
    
        match n {
            0 => REF_ZERO,                                              // Length 0
            1 => p,                                                 // Length 1
            2 => KJ::new(q.x() + p.x(), q.y() + p.y()),             // Length SQRT2
            3 => KJ::new(q.x() + 2.0 * p.x(), q.y() + 2.0 * p.y()), // Length SQRT5
            _ => panic!("Invalid Quaternary value: {}", n),
        }
    }
    
    fn ref_kj_to_ij(kj: KJ) -> IJ {
        IJ::new(kj.x() - kj.y(), kj.y())
    }
    
    fn ref_reverse_pattern(pattern: &[usize]) -> Vec<usize> {
        let mut result = vec![0; pattern.len()];
        for (i, &val) in pattern.iter().enumerate() {
            result[val] = i;
        }
        result
    }
    
    const REF_PATTERN_FLIPPED: [usize; 8] = [0, 1, 2, 7, 3, 4, 5, 6];
    const REF_PATTERN: [usize; 8] = [0, 1, 3, 4, 5, 6, 7, 2];
    const REF_K_POS: KJ = KJ(crate::coordinate_systems::vec2::Vec2 { x: 1.0, y: 0.0 });
    const REF_J_POS: KJ = KJ(crate::coordinate_systems::vec2::Vec2 { x: 0.0, y: 1.0 });
    const REF_K_NEG: KJ = KJ(crate::coordinate_systems::vec2::Vec2 { x: -1.0, y: 0.0 });
    const REF_J_NEG: KJ = KJ(crate::coordinate_systems::vec2::Vec2 { x: 0.0, y: -1.0 });
    const REF_ZERO: KJ = KJ(crate::coordinate_systems::vec2::Vec2 { x: 0.0, y: 0.0 });
    lazy_static::lazy_static! {
        static ref REF_PATTERN_REVERSED: Vec<usize> = ref_reverse_pattern(&REF_PATTERN);
        static ref REF_PATTERN_FLIPPED_REVERSED: Vec<usize> = ref_reverse_pattern(&REF_PATTERN_FLIPPED);
    }
    

    fn locate_equiv(n: usize, o: Orientation) {
        let x: f64 = kani::any();
        let y: f64 = kani::any();
        let lim = (1u64 << (n + 1)) as f64;
        kani::assume(x.abs() <= lim && y.abs() <= lim);
        assert!(ij_to_s(IJ::new(x, y), n, o) == ref_ij_to_s(IJ::new(x, y), n, o));
    }

    #[kani::proof]
    #[kani::unwind(12)]
    fn k6_locate_equiv_n1_uv() { locate_equiv(1, Orientation::UV); }
    #[kani::proof]
    #[kani::unwind(12)]
    fn k6_locate_equiv_n1_vu() { locate_equiv(1, Orientation::VU); }
    #[kani::proof]
    #[kani::unwind(12)]
    fn k6_locate_equiv_n1_uw() { locate_equiv(1, Orientation::UW); }
    #[kani::proof]
    #[kani::unwind(12)]
    fn k6_locate_equiv_n1_wu() { locate_equiv(1, Orientation::WU); }
    #[kani::proof]
    #[kani::unwind(12)]
    fn k6_locate_equiv_n1_vw() { locate_equiv(1, Orientation::VW); }
    #[kani::proof]
    #[kani::unwind(12)]
    fn k6_locate_equiv_n1_wv() { locate_equiv(1, Orientation::WV); }
    #[kani::proof]
    #[kani::unwind(12)]
    fn k6_locate_equiv_n2_uv() { locate_equiv(2, Orientation::UV); }
    #[kani::proof]
    #[kani::unwind(12)]
    fn k6_locate_equiv_n2_vu() { locate_equiv(2, Orientation::VU); }
    #[kani::proof]
    #[kani::unwind(12)]
    fn k6_locate_equiv_n2_uw() { locate_equiv(2, Orientation::UW); }
    #[kani::proof]
    #[kani::unwind(12)]
    fn k6_locate_equiv_n2_wu() { locate_equiv(2, Orientation::WU); }
    #[kani::proof]
    #[kani::unwind(12)]
    fn k6_locate_equiv_n2_vw() { locate_equiv(2, Orientation::VW); }
    #[kani::proof]
    #[kani::unwind(12)]
    fn k6_locate_equiv_n2_wv() { locate_equiv(2, Orientation::WV); }
}
