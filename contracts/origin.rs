// unit `origin` : the quintant <-> segment relabelling and the nearest-face scan of src/core/origin.rs
// (discharges the contracts that unit `glue` assumes for quintant_to_segment / segment_to_quintant /
// find_nearest_origin, and proves the C18 relabelling sentence for EVERY face record, not only the 12 real ones)
//@include inc/base.rs
verus! {

//# tags=C18
/// which way a face's quintant layout winds (slice comparison against the two clockwise tables): opaque
pub uninterp spec fn is_cw(layout: Seq<Orientation>) -> bool;

#[verifier::external_body]
fn is_layout_clockwise(layout: &Vec<Orientation>) -> (r: bool)
    ensures r == is_cw(layout@),
{ unimplemented!() }

/// position of quintant q in the face's own counting (from the first quintant, in the face's winding direction)
pub open spec fn face_rel(q: int, fq: int, cw: bool) -> int {
    let delta = (q + 5 - fq) % 5;
    if cw { (5 - delta) % 5 } else { delta }
}

/// documented relabelling quintant -> segment
pub open spec fn seg_of(q: int, fq: int, cw: bool) -> int { (fq + face_rel(q, fq, cw)) % 5 }

/// documented relabelling segment -> quintant
pub open spec fn quint_of(s: int, fq: int, cw: bool) -> int {
    let rel = (s + 5 - fq) % 5;
    if cw { (fq + 5 - rel) % 5 } else { (fq + rel) % 5 }
}

pub open spec fn origin_rec_ok(o: Origin) -> bool { o.first_quintant < 5 && o.orientation@.len() == 5 }

//@extract fn quintant_to_segment from src/core/origin.rs ret=r tags=C18,C14
//@spec
requires
    quintant < 5,
    origin_rec_ok(*origin),
ensures
    r.0 < 5,                                                                                      // [C14,C18:quintant_to_segment.segment-in-range]
    r.0 == seg_of(quintant as int, origin.first_quintant as int, is_cw(origin.orientation@)),     // [C18:quintant_to_segment.is-documented-relabelling]
    r.1 == origin.orientation@[face_rel(quintant as int, origin.first_quintant as int, is_cw(origin.orientation@))],   // [C18:quintant_to_segment.orientation]
//@at after-let delta
proof {
    assert(step * (delta as i32) == (if step == -1 { -(delta as int) } else { delta as int })) by (nonlinear_arith)
        requires step == -1 || step == 1, 0 <= delta < 5;
    lemma_mod5(quintant as int + 5 - origin.first_quintant as int);
    lemma_mod5(5 - delta as int);
    lemma_mod5(delta as int + 5);
}
//@at after-let face_relative_quintant
proof {
    assert(face_relative_quintant as int == face_rel(quintant as int, origin.first_quintant as int, is_cw(origin.orientation@)));
    lemma_mod5(origin.first_quintant as int + face_relative_quintant as int);
}
//@end

//@extract fn segment_to_quintant from src/core/origin.rs ret=r tags=C18,C14
//@spec
requires
    segment < 5,
    origin_rec_ok(*origin),
ensures
    r.0 < 5,                                                                                      // [C14,C18:segment_to_quintant.quintant-in-range]
    r.0 == quint_of(segment as int, origin.first_quintant as int, is_cw(origin.orientation@)),    // [C18:segment_to_quintant.is-documented-relabelling]
    r.1 == origin.orientation@[(segment as int + 5 - origin.first_quintant as int) % 5],          // [C18:segment_to_quintant.orientation]
//@at after-let face_relative_quintant
proof {
    lemma_mod5(segment as int + 5 - origin.first_quintant as int);
    assert(step * (face_relative_quintant as i32) == (if step == -1 { -(face_relative_quintant as int) } else { face_relative_quintant as int })) by (nonlinear_arith)
        requires step == -1 || step == 1, 0 <= face_relative_quintant < 5;
}
//@at after-let step_offset
proof {
    assert(step_offset as int == (if step == -1 { -(face_relative_quintant as int) } else { face_relative_quintant as int }));
    lemma_mod5(origin.first_quintant as int + face_relative_quintant as int);
    lemma_mod5(origin.first_quintant as int + 5 - face_relative_quintant as int);
}
//@end

/// C18: on every face record the relabelling is a bijection of 0..5 whose two directions are inverse ...
pub proof fn thm_relabel_inverse(fq: int, cw: bool)
    requires 0 <= fq < 5,
    ensures
        forall|q: int| 0 <= q < 5 ==> 0 <= #[trigger] seg_of(q, fq, cw) < 5 && quint_of(seg_of(q, fq, cw), fq, cw) == q,   // [C18:relabel.segment-of-quintant-inverts]
        forall|s: int| 0 <= s < 5 ==> 0 <= #[trigger] quint_of(s, fq, cw) < 5 && seg_of(quint_of(s, fq, cw), fq, cw) == s, // [C18:relabel.quintant-of-segment-inverts]
{
    assert forall|q: int| 0 <= q < 5 implies 0 <= #[trigger] seg_of(q, fq, cw) < 5 && quint_of(seg_of(q, fq, cw), fq, cw) == q by {
        lemma_relabel_point(q, fq, cw);
    }
    assert forall|s: int| 0 <= s < 5 implies 0 <= #[trigger] quint_of(s, fq, cw) < 5 && seg_of(quint_of(s, fq, cw), fq, cw) == s by {
        lemma_relabel_point(s, fq, cw);
    }
}

proof fn lemma_relabel_point(x: int, fq: int, cw: bool)
    requires 0 <= fq < 5, 0 <= x < 5,
    ensures
        0 <= seg_of(x, fq, cw) < 5, quint_of(seg_of(x, fq, cw), fq, cw) == x,
        0 <= quint_of(x, fq, cw) < 5, seg_of(quint_of(x, fq, cw), fq, cw) == x,
        // ... and both directions read the SAME slot of the face's orientation layout, so the curve orientation
        // attached to a (quintant, segment) pair does not depend on the direction of the lookup
        (seg_of(x, fq, cw) + 5 - fq) % 5 == face_rel(x, fq, cw),
        face_rel(quint_of(x, fq, cw), fq, cw) == (x + 5 - fq) % 5,
{
    // closed arithmetic over 0..5: every `% 5` below has an argument in 0..10
    let d = (x + 5 - fq) % 5;
    lemma_mod5(x + 5 - fq);
    lemma_mod5(5 - d);
    let rel = face_rel(x, fq, cw);
    lemma_mod5(fq + rel);
    let sg = seg_of(x, fq, cw);
    lemma_mod5(sg + 5 - fq);
    let rel2 = (sg + 5 - fq) % 5;
    lemma_mod5(fq + 5 - rel2);
    lemma_mod5(fq + rel2);
    // backward direction
    lemma_mod5(fq + 5 - d);
    lemma_mod5(fq + d);
    let qt = quint_of(x, fq, cw);
    lemma_mod5(qt + 5 - fq);
    let d2 = (qt + 5 - fq) % 5;
    lemma_mod5(5 - d2);
    let rel3 = face_rel(qt, fq, cw);
    lemma_mod5(fq + rel3);
}

proof fn lemma_mod5(a: int)
    requires 0 <= a <= 10,
    ensures a % 5 == (if a < 5 { a } else if a < 10 { a - 5 } else { 0 }), 0 <= a % 5 < 5,
{
}

/// C18: ... and the orientation reported for a pair is the same in both directions
pub proof fn thm_relabel_orientation(o: Origin, x: int)
    requires origin_rec_ok(o), 0 <= x < 5,
    ensures
        ({  let fq = o.first_quintant as int; let cw = is_cw(o.orientation@);
            // forward then backward: same orientation slot
            &&& o.orientation@[(seg_of(x, fq, cw) + 5 - fq) % 5] == o.orientation@[face_rel(x, fq, cw)]      // [C18:relabel.orientation-preserved-forward]
            &&& o.orientation@[face_rel(quint_of(x, fq, cw), fq, cw)] == o.orientation@[(x + 5 - fq) % 5]    // [C18:relabel.orientation-preserved-backward]
        }),
{
    lemma_relabel_point(x, o.first_quintant as int, is_cw(o.orientation@));
}

// ---- nearest-face scan: the float distance is an uninterpreted function of (point, face axis); the result is the
// entry of the face table that minimises it (C18: "the face chosen for indexing is the one whose centre is nearest")
//# tags=C18
/// origin.rs::haversine as a mathematical function of its two arguments (ASSUMED deterministic; that it is monotone in
/// the great-circle distance is float analysis and not decided)
pub uninterp spec fn hav(point: Spherical, axis: Spherical) -> f64;
/// IEEE-754 `<` on f64
pub uninterp spec fn flt(a: f64, b: f64) -> bool;
pub uninterp spec fn f_inf() -> f64;

#[verifier::external_body]
fn haversine(point: Spherical, axis: Spherical) -> (r: f64)
    ensures r == hav(point, axis), flt(r, f_inf()),          // ASSUMED: a finite number (finite inputs)
{ unimplemented!() }
#[verifier::external_body]
fn f_infinity() -> (r: f64) ensures r == f_inf(), { unimplemented!() }
#[verifier::external_body]
fn f_lt(a: f64, b: f64) -> (r: bool) ensures r == flt(a, b), { unimplemented!() }

/// ASSUMED (IEEE-754): `<` is transitive and irreflexive
#[verifier::external_body]
pub proof fn axiom_flt_trans(a: f64, b: f64, c: f64)
    ensures flt(a, b) && flt(b, c) ==> flt(a, c), !flt(a, a),
{ }

//@extract fn find_nearest_origin from src/core/origin.rs ret=r tags=C14,C18
//@fnattr #[verifier::loop_isolation(false)]
//@rewrite "f64::INFINITY" => "f_infinity()"
//@rewrite "for origin in origins {" => "for __i in 0..origins.len() {\n        let origin = &origins[__i];"
//@rewrite "if distance < min_distance {" => "if f_lt(distance, min_distance) {"
//@spec
ensures
    origins_ok(get_origins_spec()),
    r.id < 12,                                                                      // [C14,C18:find_nearest_origin.face-in-range]
    *r == get_origins_spec()[r.id as int],                                          // [C14,C18:find_nearest_origin.is-table-entry]
    forall|j: int| 0 <= j < 12 ==> !flt(hav(point, (#[trigger] get_origins_spec()[j]).axis), hav(point, r.axis)),   // [C18:find_nearest_origin.no-face-is-nearer]
//@loop 1
invariant
    origins@ == get_origins_spec(), origins_ok(origins@),
    nearest.id < 12, *nearest == origins@[nearest.id as int],
    __i == 0 ==> min_distance == f_inf(),
    __i > 0 ==> min_distance == hav(point, nearest.axis),
    forall|j: int| 0 <= j < __i ==> !flt(hav(point, (#[trigger] origins@[j]).axis), min_distance),
//@at loop 1 body-start
let ghost m0 = min_distance;
//@at loop 1 body-end
proof {
    assert forall|j: int| 0 <= j < __i + 1 implies !flt(hav(point, (#[trigger] origins@[j]).axis), min_distance) by {
        // either the minimum stayed m0 (and `distance < m0` was false), or it moved to `distance` with distance < m0:
        // then d_j < distance would give d_j < m0 by transitivity
        axiom_flt_trans(hav(point, origins@[j].axis), distance, m0);
        axiom_flt_trans(distance, distance, distance);
    }
}
//@end

} // verus!
fn main() {}
