// unit `glue` : the integer side of the float API (src/core/cell.rs), float layer as contract boundary
//@include inc/base.rs
//@include inc/codec_spec.rs
//@include inc/codec_lemmas.rs
//@include inc/codec_fns.rs
//@include inc/tree_spec.rs
//@include inc/glue_stubs.rs
//@include inc/glue_fns.rs
fn main() {}
