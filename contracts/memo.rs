// unit `memo` : the two lazily filled projection caches of DodecahedronProjection (C13, single thread)
use vstd::prelude::*;
verus! {

global size_of usize == 8;

#[verifier::external_body]
pub fn err_msg() -> (r: String) { String::new() }

//@extract type OriginId from src/core/utils.rs
//@end
//@extract type FaceTriangleIndex from src/projections/dodecahedron.rs
//@end

// float-layer value types and sub-projections: opaque
#[verifier::external_body] #[derive(Clone, Copy)] pub struct FaceTriangle { _p: f64 }
#[verifier::external_body] #[derive(Clone, Copy)] pub struct SphericalTriangle { _p: f64 }
#[verifier::external_body] pub struct PolyhedralProjection { _p: f64 }
#[verifier::external_body] pub struct GnomonicProjection { _p: f64 }
#[verifier::external_body] pub struct CRS { _p: f64 }

//@extract struct DodecahedronProjection from src/projections/dodecahedron.rs
//@end

//# tags=C13
/// the value a face-triangle / spherical-triangle computation yields: a function of the explicit arguments only
/// (ASSUMED for the float callees below: safe Rust float code without interior state is deterministic)
pub uninterp spec fn spec_ft(idx: int, reflected: bool, squashed: bool) -> FaceTriangle;
pub uninterp spec fn spec_st(idx: int, origin: int, reflected: bool) -> SphericalTriangle;

impl DodecahedronProjection {
    /// representation invariant: every filled slot holds the value of ITS OWN key
    pub closed spec fn inv(&self) -> bool {
        &&& self.face_triangles@.len() == 30
        &&& self.spherical_triangles@.len() == 240
        &&& forall|k: int| 0 <= k < 30 ==> (#[trigger] self.face_triangles@[k] matches Some(v) ==> v == spec_ft(k % 10, k >= 10, k >= 20))
        &&& forall|k: int| 0 <= k < 240 ==> (#[trigger] self.spherical_triangles@[k] matches Some(v) ==> v == spec_st(k % 10, (k % 120) / 10, k >= 120))
    }

    pub closed spec fn ft_slots(&self) -> Seq<Option<FaceTriangle>> { self.face_triangles@ }
    pub closed spec fn st_slots(&self) -> Seq<Option<SphericalTriangle>> { self.spherical_triangles@ }

    #[verifier::external_body]
    fn get_base_face_triangle(&self, face_triangle_index: FaceTriangleIndex) -> (res: Result<FaceTriangle, String>)
        ensures res is Ok ==> res->Ok_0 == spec_ft(face_triangle_index as int, false, false),
    { unimplemented!() }

    #[verifier::external_body]
    fn get_reflected_face_triangle(&self, face_triangle_index: FaceTriangleIndex, squashed: bool) -> (res: Result<FaceTriangle, String>)
        ensures res is Ok ==> res->Ok_0 == spec_ft(face_triangle_index as int, true, squashed),
    { unimplemented!() }

    // calls get_face_triangle(idx, reflected, true) (fills a face-triangle slot with its own key) and float code
    #[verifier::external_body]
    fn compute_spherical_triangle(&mut self, face_triangle_index: FaceTriangleIndex, origin_id: OriginId, reflected: bool) -> (res: Result<SphericalTriangle, String>)
        requires old(self).inv(),
        ensures
            final(self).inv(),
            final(self).st_slots() == old(self).st_slots(),
            res is Ok ==> res->Ok_0 == spec_st(face_triangle_index as int, origin_id as int, reflected),
    { unimplemented!() }

//@extract fn get_face_triangle from src/projections/dodecahedron.rs impl=DodecahedronProjection ret=res tags=C13,C14
//@spec
requires
    old(self).inv(),
ensures
    final(self).inv(),                                                                                       // [C13:get_face_triangle.invariant]
    face_triangle_index > 9 ==> res is Err,
    res is Ok ==> res->Ok_0 == spec_ft(face_triangle_index as int, reflected, reflected && squashed),       // [C13:get_face_triangle.history-independent]
    final(self).st_slots() == old(self).st_slots(),                                                         // [C13:get_face_triangle.frame]
    forall|k: int| 0 <= k < 30 && k != face_triangle_index + (if reflected { if squashed { 20int } else { 10int } } else { 0int })
        ==> final(self).ft_slots()[k] == old(self).ft_slots()[k],                                           // [C13:get_face_triangle.frame-slots]
//@end

//@extract fn get_spherical_triangle from src/projections/dodecahedron.rs impl=DodecahedronProjection ret=res tags=C13,C14
//@spec
requires
    old(self).inv(),
    face_triangle_index <= 9,
    origin_id < 12,     // forward() checks it; inverse()'s callers pass decoded face ids (obligation in unit glue)
ensures
    final(self).inv(),                                                                                       // [C13:get_spherical_triangle.invariant]
    res is Ok ==> res->Ok_0 == spec_st(face_triangle_index as int, origin_id as int, reflected),   // [C13:get_spherical_triangle.history-independent]
    forall|k: int| 0 <= k < 240 && k != 10 * origin_id + face_triangle_index + (if reflected { 120int } else { 0int })
        ==> final(self).st_slots()[k] == old(self).st_slots()[k],                                           // [C13:get_spherical_triangle.frame-slots]
//@end
}

/// C13 (one thread): the answer of a call does not depend on the history of earlier calls - any two states
/// satisfying the invariant give the same result
pub fn thm_history_independent(a: &mut DodecahedronProjection, b: &mut DodecahedronProjection, idx: usize, reflected: bool, squashed: bool)
    requires old(a).inv(), old(b).inv(),
{
    let ra = a.get_face_triangle(idx, reflected, squashed);
    let rb = b.get_face_triangle(idx, reflected, squashed);
    assert(ra is Ok && rb is Ok ==> ra->Ok_0 == rb->Ok_0);                                                   // [C13:history-independence]
}

} // verus!
fn main() {}
