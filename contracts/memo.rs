// unit `memo` : the two lazily filled projection caches of DodecahedronProjection (C13, single thread)
use vstd::prelude::*;
verus! {

global size_of usize == 8;

#[verifier::external_body]
pub fn err_msg() -> (r: String) { String::new() }

//@extract type OriginId from src/core/utils.rs
//@end
//@extract type Quat from src/core/utils.rs
//@end
//@extract struct Radians from src/coordinate_systems/base.rs attrs=keep
//@end
//@extract struct Spherical from src/coordinate_systems/spherical.rs attrs=keep
//@end
//@extract enum Orientation from src/core/hilbert.rs
//@end
//@extract struct Origin from src/core/utils.rs
//@end
//@extract type FaceTriangleIndex from src/projections/dodecahedron.rs
//@end

// the immutable face table (see unit codec / Kani K1); only its length matters here
#[verifier::external_body]
pub fn get_origins() -> (r: &'static Vec<Origin>)
    ensures r@.len() == 12, r@ == get_origins_spec(),
{ unimplemented!() }

// float-layer points: opaque
#[verifier::external_body] #[derive(Clone, Copy)] pub struct Face { _p: f64 }
#[verifier::external_body] #[derive(Clone, Copy)] pub struct Polar { _p: f64 }
#[verifier::external_body] #[derive(Clone, Copy)] pub struct Cartesian { _p: f64 }

// float callees: ASSUMED deterministic functions of their explicit arguments (uninterpreted spec functions)
pub uninterp spec fn sp_to_cartesian(s: Spherical) -> Cartesian;
pub uninterp spec fn sp_to_spherical(c: Cartesian) -> Spherical;
pub uninterp spec fn sp_to_polar(f: Face) -> Polar;
pub uninterp spec fn sp_transform_quat(c: Cartesian, q: Quat) -> Cartesian;
pub uninterp spec fn sp_rotate_polar(p: Polar, a: Radians) -> Polar;
pub uninterp spec fn sp_gnomonic_forward(s: Spherical) -> Polar;
pub uninterp spec fn sp_floor_index(p: Polar) -> i32;
pub uninterp spec fn sp_should_reflect(p: Polar) -> bool;
pub uninterp spec fn sp_poly_forward(c: Cartesian, st: SphericalTriangle, ft: FaceTriangle) -> Face;
pub uninterp spec fn sp_poly_inverse(f: Face, ft: FaceTriangle, st: SphericalTriangle) -> Cartesian;

#[verifier::external_body] pub fn to_cartesian(s: Spherical) -> (r: Cartesian) ensures r == sp_to_cartesian(s), { unimplemented!() }
#[verifier::external_body] pub fn to_spherical(c: Cartesian) -> (r: Spherical) ensures r == sp_to_spherical(c), { unimplemented!() }
#[verifier::external_body] pub fn to_polar(f: Face) -> (r: Polar) ensures r == sp_to_polar(f), { unimplemented!() }
#[verifier::external_body] pub fn transform_quat(c: Cartesian, q: Quat) -> (r: Cartesian) ensures r == sp_transform_quat(c, q), { unimplemented!() }
#[verifier::external_body] pub fn rotate_polar(p: Polar, a: Radians) -> (r: Polar) ensures r == sp_rotate_polar(p, a), { unimplemented!() }
// `(gamma / PI_OVER_5).floor() as i32`: gamma comes from atan2 (|gamma| <= pi), so |quotient| <= 5 (ASSUMED bound: 100)
#[verifier::external_body] pub fn floor_index(p: Polar) -> (r: i32) ensures r == sp_floor_index(p), -100 <= r <= 100, { unimplemented!() }

// float-layer value types and sub-projections: opaque
#[verifier::external_body] #[derive(Clone, Copy)] pub struct FaceTriangle { _p: f64 }
#[verifier::external_body] #[derive(Clone, Copy)] pub struct SphericalTriangle { _p: f64 }
#[verifier::external_body] pub struct PolyhedralProjection { _p: f64 }
#[verifier::external_body] pub struct GnomonicProjection { _p: f64 }
impl GnomonicProjection {
    #[verifier::external_body] pub fn forward(&self, s: Spherical) -> (r: Polar) ensures r == sp_gnomonic_forward(s), { unimplemented!() }
}
impl PolyhedralProjection {
    #[verifier::external_body] pub fn forward(&self, c: Cartesian, st: SphericalTriangle, ft: FaceTriangle) -> (r: Face) ensures r == sp_poly_forward(c, st, ft), { unimplemented!() }
    #[verifier::external_body] pub fn inverse(&self, f: Face, ft: FaceTriangle, st: SphericalTriangle) -> (r: Cartesian) ensures r == sp_poly_inverse(f, ft, st), { unimplemented!() }
}
#[verifier::external_body] pub struct CRS { _p: f64 }

//@extract struct DodecahedronProjection from src/projections/dodecahedron.rs
//@end

//# tags=C13
/// the value a face-triangle / spherical-triangle computation yields: a function of the explicit arguments only
/// (ASSUMED for the float callees below: safe Rust float code without interior state is deterministic)
pub uninterp spec fn spec_ft(idx: int, reflected: bool, squashed: bool) -> FaceTriangle;
pub uninterp spec fn spec_st(idx: int, origin: int, reflected: bool) -> SphericalTriangle;

impl DodecahedronProjection {
    /// representation invariant: every filled slot holds the value of ITS OWN key
    pub closed spec fn inv(&self) -> bool {
        &&& self.face_triangles@.len() == 30
        &&& self.spherical_triangles@.len() == 240
        &&& forall|k: int| 0 <= k < 30 ==> (#[trigger] self.face_triangles@[k] matches Some(v) ==> v == spec_ft(k % 10, k >= 10, k >= 20))
        &&& forall|k: int| 0 <= k < 240 ==> (#[trigger] self.spherical_triangles@[k] matches Some(v) ==> v == spec_st(k % 10, (k % 120) / 10, k >= 120))
    }

    pub closed spec fn ft_slots(&self) -> Seq<Option<FaceTriangle>> { self.face_triangles@ }
    pub closed spec fn st_slots(&self) -> Seq<Option<SphericalTriangle>> { self.spherical_triangles@ }

    #[verifier::external_body]
    fn get_base_face_triangle(&self, face_triangle_index: FaceTriangleIndex) -> (res: Result<FaceTriangle, String>)
        ensures res is Ok ==> res->Ok_0 == spec_ft(face_triangle_index as int, false, false),
    { unimplemented!() }

    #[verifier::external_body]
    fn get_reflected_face_triangle(&self, face_triangle_index: FaceTriangleIndex, squashed: bool) -> (res: Result<FaceTriangle, String>)
        ensures res is Ok ==> res->Ok_0 == spec_ft(face_triangle_index as int, true, squashed),
    { unimplemented!() }

    // calls get_face_triangle(idx, reflected, true) (fills a face-triangle slot with its own key) and float code
    #[verifier::external_body]
    fn compute_spherical_triangle(&mut self, face_triangle_index: FaceTriangleIndex, origin_id: OriginId, reflected: bool) -> (res: Result<SphericalTriangle, String>)
        requires old(self).inv(),
        ensures
            final(self).inv(),
            final(self).st_slots() == old(self).st_slots(),
            res is Ok ==> res->Ok_0 == spec_st(face_triangle_index as int, origin_id as int, reflected),
    { unimplemented!() }

    #[verifier::external_body]
    fn should_reflect(&self, polar: Polar) -> (r: bool)
        ensures r == sp_should_reflect(polar),
    { unimplemented!() }

//@extract fn get_face_triangle_index from src/projections/dodecahedron.rs impl=DodecahedronProjection ret=res tags=C13,C14
//@rewrite "let gamma = polar.gamma().get();\n        let index = ((gamma / PI_OVER_5.get()).floor() as i32 + 10) % 10;" => "let index = (floor_index(polar) + 10) % 10;"
//@spec
ensures
    res is Ok, res->Ok_0 <= 9,                                                                              // [C13:get_face_triangle_index.range]
    res->Ok_0 == tri_index(sp_floor_index(polar)),                                                          // [C13:get_face_triangle_index.value]
//@end

//@extract fn get_face_triangle from src/projections/dodecahedron.rs impl=DodecahedronProjection ret=res tags=C13,C14
//@spec
requires
    old(self).inv(),
ensures
    final(self).inv(),                                                                                       // [C13:get_face_triangle.invariant]
    face_triangle_index > 9 ==> res is Err,
    res is Ok ==> res->Ok_0 == spec_ft(face_triangle_index as int, reflected, reflected && squashed),       // [C13:get_face_triangle.history-independent]
    final(self).st_slots() == old(self).st_slots(),                                                         // [C13:get_face_triangle.frame]
    forall|k: int| 0 <= k < 30 && k != face_triangle_index + (if reflected { if squashed { 20int } else { 10int } } else { 0int })
        ==> final(self).ft_slots()[k] == old(self).ft_slots()[k],                                           // [C13:get_face_triangle.frame-slots]
//@end

//@extract fn get_spherical_triangle from src/projections/dodecahedron.rs impl=DodecahedronProjection ret=res tags=C13,C14
//@spec
requires
    old(self).inv(),
    face_triangle_index <= 9,
ensures
    final(self).inv(),                                                                                       // [C13:get_spherical_triangle.invariant]
    origin_id >= 12 ==> res is Err,                                                                          // [C13,C14:get_spherical_triangle.rejects-unknown-face]
    res is Ok ==> res->Ok_0 == spec_st(face_triangle_index as int, origin_id as int, reflected),   // [C13:get_spherical_triangle.history-independent]
    forall|k: int| 0 <= k < 240 && k != 10 * origin_id + face_triangle_index + (if reflected { 120int } else { 0int })
        ==> final(self).st_slots()[k] == old(self).st_slots()[k],                                           // [C13:get_spherical_triangle.frame-slots]
//@end
}

impl DodecahedronProjection {
//@extract fn forward from src/projections/dodecahedron.rs impl=DodecahedronProjection ret=res tags=C13,C14
//@rewrite "let rotated_polar = Polar::new(\n            polar.rho(),\n            Radians::new_unchecked(polar.gamma().get() - origin.angle.get()),\n        );" => "let rotated_polar = rotate_polar(polar, origin.angle);"
//@spec
requires
    old(self).inv(),
ensures
    final(self).inv(),                                                                                       // [C13:forward.invariant]
    origin_id >= 12 ==> res is Err,
    res is Ok ==> res->Ok_0 == spec_forward(spherical, origin_id),                                          // [C13:forward.history-independent]
//@end

//@extract fn inverse from src/projections/dodecahedron.rs impl=DodecahedronProjection ret=res tags=C13,C14
//@spec
requires
    old(self).inv(),
ensures
    final(self).inv(),                                                                                       // [C13:inverse.invariant]
    origin_id >= 12 ==> res is Err,                                                                          // [C13,C14:inverse.rejects-unknown-face]
    res is Ok ==> res->Ok_0 == spec_inverse(face, origin_id),                                               // [C13:inverse.history-independent]
//@end
}

/// the value forward()/inverse() return, as a function of the explicit arguments only (no cache state)
pub open spec fn tri_index(f: i32) -> usize {
    let index = (f + 10) % 10;
    if index < 0 { (index + 10) as usize } else { index as usize }
}

pub open spec fn spec_forward(spherical: Spherical, origin_id: OriginId) -> Face {
    let origin = get_origins_spec()[origin_id as int];
    let unprojected = sp_to_cartesian(spherical);
    let out = sp_transform_quat(unprojected, origin.inverse_quat);
    let polar = sp_gnomonic_forward(sp_to_spherical(out));
    let rotated = sp_rotate_polar(polar, origin.angle);
    let idx = tri_index(sp_floor_index(rotated));
    let reflect = sp_should_reflect(rotated);
    sp_poly_forward(unprojected, spec_st(idx as int, origin_id as int, reflect), spec_ft(idx as int, reflect, false))
}

pub open spec fn spec_inverse(face: Face, origin_id: OriginId) -> Spherical {
    let polar = sp_to_polar(face);
    let idx = tri_index(sp_floor_index(polar));
    let reflect = sp_should_reflect(polar);
    sp_to_spherical(sp_poly_inverse(face, spec_ft(idx as int, reflect, false), spec_st(idx as int, origin_id as int, reflect)))
}

pub uninterp spec fn get_origins_spec() -> Seq<Origin>;

/// C13 (one thread): the answer of a call does not depend on the history of earlier calls - any two states
/// satisfying the invariant give the same result
pub fn thm_history_independent(a: &mut DodecahedronProjection, b: &mut DodecahedronProjection, idx: usize, reflected: bool, squashed: bool)
    requires old(a).inv(), old(b).inv(),
{
    let ra = a.get_face_triangle(idx, reflected, squashed);
    let rb = b.get_face_triangle(idx, reflected, squashed);
    assert(ra is Ok && rb is Ok ==> ra->Ok_0 == rb->Ok_0);                                                   // [C13:history-independence]
}

} // verus!
fn main() {}
