// unit `hilbert` : the integer digit machinery of the curve walk (src/core/hilbert.rs) - panic freedom, index bounds,
// termination (C14) with the f64 coordinate arithmetic as opaque stubs
use vstd::prelude::*;
verus! {

global size_of usize == 8;

//@extract type Quaternary from src/core/hilbert.rs
//@end
//@extract const YES from src/core/hilbert.rs
//@end
//@extract const NO from src/core/hilbert.rs
//@end
//@extract type Flip from src/core/hilbert.rs
//@end
//@extract enum Orientation from src/core/hilbert.rs attrs=keep
//@end
//@extract const PATTERN from src/core/hilbert.rs
//@end
//@extract const PATTERN_FLIPPED from src/core/hilbert.rs
//@end

// f64 lattice coordinates: opaque; their arithmetic has no integer content
#[verifier::external_body] #[derive(Clone, Copy)] pub struct KJ { _p: f64 }
#[verifier::external_body] #[derive(Clone, Copy)] pub struct IJ { _p: f64 }
#[verifier::external_body] pub fn kj_zero() -> KJ { unimplemented!() }
#[verifier::external_body] pub fn kj_double(a: KJ) -> KJ { unimplemented!() }
#[verifier::external_body] pub fn kj_add(a: KJ, b: KJ) -> KJ { unimplemented!() }
#[verifier::external_body] pub fn kj_to_ij(a: KJ) -> IJ { unimplemented!() }
#[verifier::external_body] pub fn kj_of_digit(n: Quaternary, fx: Flip, fy: Flip) -> KJ { unimplemented!() }

//@extract struct Anchor from src/core/hilbert.rs
//@end

//# tags=C14
pub open spec fn flip_ok(f: Flip) -> bool { f == -1 || f == 1 }

pub open spec fn digits_ok(d: Seq<Quaternary>) -> bool { forall|i: int| 0 <= i < d.len() ==> (#[trigger] d[i]) < 4 }

//@extract fn quaternary_to_flips from src/core/hilbert.rs ret=r tags=C14,C17
//@spec
requires
    n < 4,
ensures
    flip_ok(r[0]) && flip_ok(r[1]),                                                // [C14:quaternary_to_flips.valid]
//@end

//@extract fn shift_digits from src/core/hilbert.rs tags=C14,C17
//@spec
requires
    i < old(digits)@.len(),
    digits_ok(old(digits)@),
    flip_ok(flips[0]) && flip_ok(flips[1]),
    pattern@.len() == 8,
    forall|k: int| 0 <= k < 8 ==> (#[trigger] pattern@[k]) < 8,
ensures
    final(digits)@.len() == old(digits)@.len(),                                    // [C14:shift_digits.length]
    digits_ok(final(digits)@),                                                     // [C14:shift_digits.digits-stay-quaternary]
    forall|k: int| 0 <= k < old(digits)@.len() && k != i && k != i - 1 ==> final(digits)@[k] == old(digits)@[k],   // [C17:shift_digits.frame]
//@end

// hilbert.rs::quaternary_to_kj: `match (flip_x, flip_y) { .. _ => panic!("Invalid flip values") }` and
// `match n { 0..=3 => .., _ => panic!("Invalid Quaternary value") }`: its panic arms are its precondition
#[verifier::external_body]
pub fn quaternary_to_kj(n: Quaternary, flips: [Flip; 2]) -> KJ
    requires n < 4, flip_ok(flips[0]) && flip_ok(flips[1]),
{ unimplemented!() }

pub proof fn lemma_flip_mul(a: Flip, b: Flip)
    requires flip_ok(a), flip_ok(b),
    ensures flip_ok((a * b) as Flip), -1 <= a * b <= 1,
{
    if a == 1 { assert(a * b == b) by (nonlinear_arith) requires a == 1; }
    else { assert(a * b == -b) by (nonlinear_arith) requires a == -1; }
}

proof fn lemma_patterns()
    ensures
        PATTERN@.len() == 8 && PATTERN_FLIPPED@.len() == 8,
        forall|k: int| 0 <= k < 8 ==> (#[trigger] PATTERN@[k]) < 8,
        forall|k: int| 0 <= k < 8 ==> (#[trigger] PATTERN_FLIPPED@[k]) < 8,
{
}

//@extract fn s_to_anchor_internal from src/core/hilbert.rs ret=r tags=C14,C17
//@fnattr #[verifier::loop_isolation(false)]
//@rewrite "let mut offset = ZERO;" => "let mut offset = kj_zero();"
//@rewrite "offset = KJ::new(offset.x() * 2.0, offset.y() * 2.0);" => "offset = kj_double(offset);"
//@rewrite "offset = KJ::new(offset.x() + child_offset.x(), offset.y() + child_offset.y());" => "offset = kj_add(offset, child_offset);"
//@rewrite "let k = digits.first().copied().unwrap_or(0);" => "let k = if digits.len() > 0 { digits[0] } else { 0 };"
//@spec
ensures
    r.k < 4,                                                                       // [C14:s_to_anchor_internal.digit]
    flip_ok(r.flips[0]) && flip_ok(r.flips[1]),                                    // [C14:s_to_anchor_internal.flips]
//@at entry
proof {
    lemma_patterns();
}
//@loop 1
invariant
    digits_ok(digits@),
decreases input, (if digits@.len() < resolution { resolution - digits@.len() } else { 0 }),
//@at loop 1 body-start
proof {
    assert(input > 0 ==> (input >> 2) < input) by (bit_vector);
    assert(input == 0 ==> (input >> 2) == 0) by (bit_vector);
}
//@at after-let next_flips #1
proof {
    lemma_flip_mul(flips[0], next_flips[0]);
    lemma_flip_mul(flips[1], next_flips[1]);
}
//@at after-let next_flips #2
proof {
    lemma_flip_mul(flips[0], next_flips[0]);
    lemma_flip_mul(flips[1], next_flips[1]);
}
//@loop 2
invariant
    digits_ok(digits@), flip_ok(flips[0]) && flip_ok(flips[1]), __rev_i <= digits@.len(),
    pattern@.len() == 8, forall|k: int| 0 <= k < 8 ==> (#[trigger] pattern@[k]) < 8,
decreases __rev_i,
//@loop 3
invariant
    digits_ok(digits@), flip_ok(flips[0]) && flip_ok(flips[1]), __rev_i <= digits@.len(),
decreases __rev_i,
//@end

impl IJ {
    #[verifier::external_body] pub fn new(x: f64, y: f64) -> IJ { unimplemented!() }
    #[verifier::external_body] pub fn x(&self) -> f64 { unimplemented!() }
    #[verifier::external_body] pub fn y(&self) -> f64 { unimplemented!() }
}
#[verifier::external_body] pub fn ij_flip_shift(p: IJ, plus: bool) -> IJ { unimplemented!() }
#[verifier::external_body] pub fn f_pow2_minus_sum(p2: i32, i: f64, j: f64) -> f64 { unimplemented!() }

//@extract fn s_to_anchor from src/core/hilbert.rs ret=r tags=C14,C17
//@rewrite "anchor.offset = IJ::new(\n                anchor.offset.x() + FLIP_SHIFT.x(),\n                anchor.offset.y() + FLIP_SHIFT.y(),\n            );" => "anchor.offset = ij_flip_shift(anchor.offset, true);"
//@rewrite "anchor.offset = IJ::new(\n                anchor.offset.x() - FLIP_SHIFT.x(),\n                anchor.offset.y() - FLIP_SHIFT.y(),\n            );" => "anchor.offset = ij_flip_shift(anchor.offset, false);"
//@rewrite "let $nj = (1 << resolution) as f64 - ($i + $j);" => "let $nj = f_pow2_minus_sum((1 << resolution), $i, $j);"
//@spec
requires
    resolution <= 30,
    s < (1u64 << ((2 * resolution) as u64)),
ensures
    r.k < 4,                                                                       // [C14:s_to_anchor.digit]
    flip_ok(r.flips[0]) && flip_ok(r.flips[1]),                                    // [C14:s_to_anchor.flips]
//@at entry
proof {
    let k = (2 * resolution) as u64;
    assert(k <= 60 ==> (1u64 << k) >= 1) by (bit_vector);
}
//@end

// remaining float pieces of ij_to_s / ij_to_s_internal (no integer content)
#[verifier::external_body] pub fn ij_sub(a: IJ, b: IJ) -> IJ { unimplemented!() }
#[verifier::external_body] pub fn ij_add(a: IJ, b: IJ) -> IJ { unimplemented!() }
#[verifier::external_body] pub fn ij_div_pow2(a: IJ, p2: u64) -> IJ { unimplemented!() }
#[verifier::external_body] pub fn ij_mul_pow2(a: IJ, p2: u64) -> IJ { unimplemented!() }
// hilbert.rs::ij_to_quaternary: an if/else chain over float comparisons whose every arm assigns a digit 0..3, after the
// i8 sum flips[0] + flips[1] (hence the precondition).  The contract is discharged on the real function for every finite
// f64 pair by the Kani harness k14_ij_to_quaternary_total.
#[verifier::external_body]
pub fn ij_to_quaternary(ij: IJ, flips: [Flip; 2]) -> (r: Quaternary)
    requires flip_ok(flips[0]) && flip_ok(flips[1]),
    ensures r < 4,
{ unimplemented!() }

//@extract fn reverse_pattern from src/core/hilbert.rs ret=r tags=C14,C17
//@fnattr #[verifier::loop_isolation(false)]
//@spec
requires
    forall|k: int| 0 <= k < pattern@.len() ==> (#[trigger] pattern@[k]) < pattern@.len(),
ensures
    r@.len() == pattern@.len(),
    forall|k: int| 0 <= k < r@.len() ==> (#[trigger] r@[k]) < r@.len(),           // [C14:reverse_pattern.entries-in-range]
//@loop 1
invariant
    result@.len() == pattern@.len(),
    forall|k: int| 0 <= k < result@.len() ==> (#[trigger] result@[k]) < result@.len(),
//@end

// R8: lazy_static PATTERN_REVERSED / PATTERN_FLIPPED_REVERSED are reverse_pattern(&PATTERN / &PATTERN_FLIPPED),
// initialised once (ASSUMED of lazy_static); accessed through these wrappers
pub fn pattern_reversed() -> (r: Vec<usize>)
    ensures r@.len() == 8, forall|k: int| 0 <= k < 8 ==> (#[trigger] r@[k]) < 8,
{
    proof { lemma_patterns(); }
    reverse_pattern(&PATTERN)
}
pub fn pattern_flipped_reversed() -> (r: Vec<usize>)
    ensures r@.len() == 8, forall|k: int| 0 <= k < 8 ==> (#[trigger] r@[k]) < 8,
{
    proof { lemma_patterns(); }
    reverse_pattern(&PATTERN_FLIPPED)
}

pub open spec fn pow4(n: nat) -> nat decreases n { if n == 0 { 1 } else { 4 * pow4((n - 1) as nat) } }

pub proof fn lemma_pow4_shift(d: nat)
    requires d <= 31,
    ensures pow4(d) == (1u64 << ((2 * d) as u64)),
    decreases d,
{
    if d == 0 {
        assert((1u64 << 0) == 1) by (bit_vector);
    } else {
        lemma_pow4_shift((d - 1) as nat);
        let k = (2 * (d - 1)) as u64;
        assert(k <= 60 ==> (1u64 << add(k, 2)) == mul(4, 1u64 << k) && (1u64 << k) <= 0x1000000000000000u64) by (bit_vector);
    }
}

//@extract fn ij_to_s_internal from src/core/hilbert.rs ret=r tags=C14,C17
//@fnattr #[verifier::loop_isolation(false)]
//@rewrite "let $ro = IJ::new($inp.x() - $pv.x(), $inp.y() - $pv.y());" => "let $ro = ij_sub($inp, $pv);"
//@rewrite "let scale = 1.0 / (1u64 << i) as f64;\n        let scaled_offset = IJ::new(relative_offset.x() * scale, relative_offset.y() * scale);" => "let scaled_offset = ij_div_pow2(relative_offset, (1u64 << i));"
//@rewrite "let upscaled_child_offset = IJ::new(\n            child_offset.x() * (1u64 << i) as f64,\n            child_offset.y() * (1u64 << i) as f64,\n        );" => "let upscaled_child_offset = ij_mul_pow2(child_offset, (1u64 << i));"
//@rewrite "pivot = IJ::new(\n            pivot.x() + upscaled_child_offset.x(),\n            pivot.y() + upscaled_child_offset.y(),\n        );" => "pivot = ij_add(pivot, upscaled_child_offset);"
//@rewrite "let pattern: &[usize] = if flip_ij {\n        &PATTERN_FLIPPED_REVERSED\n    } else {\n        &PATTERN_REVERSED\n    };" => "let pattern_vec = if flip_ij { pattern_flipped_reversed() } else { pattern_reversed() };\n    let pattern: &[usize] = pattern_vec.as_slice();"
//@spec
requires
    resolution <= 31,
ensures
    r < pow4(resolution as nat),                                                   // [C14,C17:ij_to_s_internal.position-in-range]
//@loop 1
invariant
    digits@.len() == num_digits, digits_ok(digits@), flip_ok(flips[0]) && flip_ok(flips[1]), __rev_i <= num_digits,
decreases __rev_i,
//@at after-let next_flips #1
proof {
    lemma_flip_mul(flips[0], next_flips[0]);
    lemma_flip_mul(flips[1], next_flips[1]);
}
//@loop 2
invariant
    digits@.len() == num_digits, digits_ok(digits@), flip_ok(flips[0]) && flip_ok(flips[1]),
    pattern@.len() == 8, forall|k: int| 0 <= k < 8 ==> (#[trigger] pattern@[k]) < 8,
//@at after-let next_flips #2
proof {
    lemma_flip_mul(flips[0], next_flips[0]);
    lemma_flip_mul(flips[1], next_flips[1]);
}
//@loop 3
invariant
    digits@.len() == num_digits, digits_ok(digits@), __rev_i <= num_digits,
    output + pow4(__rev_i as nat) <= pow4(num_digits as nat),
decreases __rev_i,
//@at loop 3 body-start
proof {
    lemma_pow4_shift(i as nat);
    lemma_pow4_shift((i + 1) as nat);
    lemma_pow4_shift(num_digits as nat);
    assert(pow4((i + 1) as nat) == 4 * pow4(i as nat));
    assert((digit as u64) * (1u64 << ((2 * i) as u64)) <= 3 * pow4(i as nat)) by (nonlinear_arith)
        requires digit < 4, (1u64 << ((2 * i) as u64)) == pow4(i as nat);
}
//@end

//@extract fn ij_to_s from src/core/hilbert.rs ret=r tags=C14,C17
//@rewrite "$ij = IJ::new($i, (1 << resolution) as f64 - ($i + $j));" => "$ij = IJ::new($i, f_pow2_minus_sum((1 << resolution), $i, $j));"
//@spec
requires
    resolution <= 30,
ensures
    r < pow4(resolution as nat),                                                   // [C14,C17:ij_to_s.position-in-range]
//@at entry
proof {
    lemma_pow4_shift(resolution as nat);
}
//@end

} // verus!
fn main() {}
