// A5
// SPDX-License-Identifier: Apache-2.0
// Copyright (c) A5 contributors

use crate::coordinate_systems::{Radians, Spherical};
use crate::core::constants::{INTERHEDRAL_ANGLE, PI_OVER_5, TWO_PI_OVER_5};
use crate::core::dodecahedron_quaternions::QUATERNIONS;
use crate::core::hilbert::Orientation;
use crate::core::utils::{Origin, OriginId, Quat};

// Quintant layouts (clockwise & counterclockwise)
pub const CLOCKWISE_FAN: [Orientation; 5] = [
    Orientation::VU,
    Orientation::UW,
    Orientation::VW,
    Orientation::VW,
    Orientation::VW,
];

pub const CLOCKWISE_STEP: [Orientation; 5] = [
    Orientation::WU,
    Orientation::UW,
    Orientation::VW,
    Orientation::VU,
    Orientation::UW,
];

pub const COUNTER_STEP: [Orientation; 5] = [
    Orientation::WU,
    Orientation::UV,
    Orientation::WV,
    Orientation::WU,
    Orientation::UW,
];

pub const COUNTER_JUMP: [Orientation; 5] = [
    Orientation::VU,
    Orientation::UV,
    Orientation::WV,
    Orientation::WU,
    Orientation::UW,
];

const QUINTANT_ORIENTATIONS_ARRAYS: [[Orientation; 5]; 12] = [
    CLOCKWISE_FAN,  // 0 Arctic
    COUNTER_JUMP,   // 1 North America
    COUNTER_STEP,   // 2 South America
    CLOCKWISE_STEP, // 3 North Atlantic & Western Europe & Africa
    COUNTER_STEP,   // 4 South Atlantic & Africa
    COUNTER_JUMP,   // 5 Europe, Middle East & CentralAfrica
    COUNTER_STEP,   // 6 Indian Ocean
    CLOCKWISE_STEP, // 7 Asia
    CLOCKWISE_STEP, // 8 Australia
    CLOCKWISE_STEP, // 9 North Pacific
    COUNTER_JUMP,   // 10 South Pacific
    COUNTER_JUMP,   // 11 Antarctic
];

// Within each face, these are the indices of the first quintant
const QUINTANT_FIRST: [usize; 12] = [4, 2, 3, 2, 0, 4, 3, 2, 2, 0, 3, 0];

// Placements of dodecahedron faces along the Hilbert curve
const ORIGIN_ORDER: [usize; 12] = [0, 1, 2, 4, 3, 5, 7, 8, 6, 11, 10, 9];

use std::sync::OnceLock;

static ORIGINS: OnceLock<Vec<Origin>> = OnceLock::new();

fn quat_conjugate(q: Quat) -> Quat {
    [-q[0], -q[1], -q[2], q[3]]
}

fn generate_origins() -> Vec<Origin> {
    let mut origins = Vec::with_capacity(12);
    let mut origin_id: OriginId = 0;

    // Helper function to add origins
    let mut add_origin = |axis: Spherical, angle: Radians, quaternion: Quat| {
        if origin_id > 11 {
            panic!("Too many origins: {}", origin_id);
        }
        let inverse_quat = quat_conjugate(quaternion);
        let orientation = QUINTANT_ORIENTATIONS_ARRAYS[origin_id as usize].to_vec();
        let first_quintant = QUINTANT_FIRST[origin_id as usize];

        let origin = Origin {
            id: origin_id,
            axis,
            quat: quaternion,
            inverse_quat,
            angle,
            orientation,
            first_quintant,
        };
        origins.push(origin);
        origin_id += 1;
    };

    // North pole
    add_origin(
        Spherical::new(Radians::new_unchecked(0.0), Radians::new_unchecked(0.0)),
        Radians::new_unchecked(0.0),
        QUATERNIONS[0],
    );

    // Middle band
    for i in 0..5 {
        let alpha = (i as f64) * TWO_PI_OVER_5.get();
        let alpha2 = alpha + PI_OVER_5.get();
        add_origin(
            Spherical::new(Radians::new_unchecked(alpha), INTERHEDRAL_ANGLE),
            Radians::new_unchecked(PI_OVER_5.get()),
            QUATERNIONS[i + 1],
        );
        add_origin(
            Spherical::new(
                Radians::new_unchecked(alpha2),
                Radians::new_unchecked(std::f64::consts::PI - INTERHEDRAL_ANGLE.get()),
            ),
            Radians::new_unchecked(PI_OVER_5.get()),
            QUATERNIONS[(i + 3) % 5 + 6],
        );
    }

    // South pole
    add_origin(
        Spherical::new(
            Radians::new_unchecked(0.0),
            Radians::new_unchecked(std::f64::consts::PI),
        ),
        Radians::new_unchecked(0.0),
        QUATERNIONS[11],
    );

    // Reorder origins to match the order of the hilbert curve
    let mut reordered = Vec::with_capacity(12);
    for (new_id, &original_id) in ORIGIN_ORDER.iter().enumerate() {
        let mut origin = origins[original_id].clone();
        origin.id = new_id as OriginId;
        reordered.push(origin);
    }

    reordered
}

pub fn get_origins() -> &'static Vec<Origin> {
    ORIGINS.get_or_init(generate_origins)
}

pub fn quintant_to_segment(quintant: usize, origin: &Origin) -> (usize, Orientation) {
    // Lookup winding direction of this face
    let layout = &origin.orientation;
    let is_clockwise = is_layout_clockwise(layout);
    let step = if is_clockwise { -1i32 } else { 1i32 };

    // Find (CCW) delta from first quintant of this face
    let delta = (quintant + 5 - origin.first_quintant) % 5;

    // To look up the orientation, we need to use clockwise/counterclockwise counting
    let face_relative_quintant = ((step * delta as i32) + 5) % 5;
    let orientation = layout[face_relative_quintant as usize];
    let segment = (origin.first_quintant + face_relative_quintant as usize) % 5;

    (segment, orientation)
}

pub fn segment_to_quintant(segment: usize, origin: &Origin) -> (usize, Orientation) {
    // Lookup winding direction of this face
    let layout = &origin.orientation;
    let is_clockwise = is_layout_clockwise(layout);
    let step = if is_clockwise { -1i32 } else { 1i32 };

    let face_relative_quintant = (segment + 5 - origin.first_quintant) % 5;
    let orientation = layout[face_relative_quintant];

    // Handle the arithmetic more carefully to avoid overflow
    let step_offset = (step * face_relative_quintant as i32) % 5;
    let quintant = if step_offset >= 0 {
        (origin.first_quintant + step_offset as usize) % 5
    } else {
        (origin.first_quintant + 5 - ((-step_offset) as usize)) % 5
    };

    (quintant, orientation)
}

fn is_layout_clockwise(layout: &[Orientation]) -> bool {
    // Check if layout matches clockwise patterns
    layout == CLOCKWISE_FAN.as_slice() || layout == CLOCKWISE_STEP.as_slice()
}

/// Find the nearest origin to a point on the sphere
/// Uses haversine formula to calculate great-circle distance
pub fn find_nearest_origin(point: Spherical) -> &'static Origin {
    let origins = get_origins();
    let mut min_distance = f64::INFINITY;
    let mut nearest = &origins[0];

    for origin in origins {
        let distance = haversine(point, origin.axis);
        if distance < min_distance {
            min_distance = distance;
            nearest = origin;
        }
    }

    nearest
}

pub fn is_nearest_origin(point: Spherical, origin: &Origin) -> bool {
    haversine(point, origin.axis) > 0.49999999
}

/// Modified haversine formula to calculate great-circle distance.
/// Returns the "angle" between the two points. We need to minimize this to find the nearest origin
/// TODO figure out derivation!
pub fn haversine(point: Spherical, axis: Spherical) -> f64 {
    let theta = point.theta().get();
    let phi = point.phi().get();
    let theta2 = axis.theta().get();
    let phi2 = axis.phi().get();
    let dtheta = theta2 - theta;
    let dphi = phi2 - phi;
    let a1 = (dphi / 2.0).sin();
    let a2 = (dtheta / 2.0).sin();
    a1 * a1 + a2 * a2 * phi.sin() * phi2.sin()
}
