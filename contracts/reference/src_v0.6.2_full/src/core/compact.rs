// A5
// SPDX-License-Identifier: Apache-2.0
// Copyright (c) A5 contributors

//! Optimized implementation of compact/uncompact functions for A5 DGGS.
//!
//! This version uses cell_to_children for expansion and stride-based sibling detection
//! for compaction.

use std::collections::HashSet;

use crate::core::cell_info::get_num_children;
use crate::core::serialization::{
    cell_to_children, cell_to_parent, get_resolution, get_stride, is_first_child,
    FIRST_HILBERT_RESOLUTION,
};

/// Expands a set of A5 cells to a target resolution by generating all descendant cells.
///
/// # Arguments
///
/// * `cells` - Slice of A5 cell identifiers to uncompact
/// * `target_resolution` - The target resolution level for all output cells
///
/// # Returns
///
/// Vector of cell identifiers, all at the target resolution
///
/// # Errors
///
/// Returns an error if any cell is at a resolution higher than the target resolution
pub fn uncompact(cells: &[u64], target_resolution: i32) -> Result<Vec<u64>, String> {
    // First calculate how much space is needed
    let mut n = 0;
    let mut resolutions = Vec::with_capacity(cells.len());

    for &cell in cells {
        let resolution = get_resolution(cell);
        let resolution_diff = target_resolution - resolution;
        if resolution_diff < 0 {
            return Err(format!(
                "Cannot uncompact cell at resolution {} to lower resolution {}",
                resolution, target_resolution
            ));
        }

        resolutions.push(resolution);
        n += get_num_children(resolution, target_resolution);
    }

    // Write directly into pre-allocated vec
    let mut result = Vec::with_capacity(n);

    for (i, &cell) in cells.iter().enumerate() {
        let resolution = resolutions[i];
        let num_children = get_num_children(resolution, target_resolution);

        if num_children == 1 {
            result.push(cell);
        } else {
            let children = cell_to_children(cell, Some(target_resolution))?;
            result.extend(children);
        }
    }

    Ok(result)
}

/// Compacts a set of A5 cells by replacing complete groups of sibling cells with their parent cells.
///
/// # Arguments
///
/// * `cells` - Slice of A5 cell identifiers to compact
///
/// # Returns
///
/// Vector of compacted cell identifiers (typically smaller than input)
pub fn compact(cells: &[u64]) -> Result<Vec<u64>, String> {
    if cells.is_empty() {
        return Ok(Vec::new());
    }

    // Single sort and dedup
    let unique_cells: HashSet<u64> = cells.iter().copied().collect();
    let mut current_cells: Vec<u64> = unique_cells.into_iter().collect();
    current_cells.sort_unstable();

    // Compact until no more changes
    // No re-sorting needed - parents maintain sorted order!
    let mut changed = true;
    while changed {
        changed = false;
        let mut result = Vec::new();
        let mut i = 0;

        while i < current_cells.len() {
            let cell = current_cells[i];
            let resolution = get_resolution(cell);

            // Can't compact below resolution 0
            if resolution < 0 {
                result.push(cell);
                i += 1;
                continue;
            }

            // Check for complete sibling group using unified stride-based approach
            let expected_children = if resolution >= FIRST_HILBERT_RESOLUTION {
                4 // Hilbert levels have 4 siblings
            } else if resolution == 0 {
                12 // First two levels are exceptions, with 12 & 5 siblings
            } else {
                5
            };

            if i + expected_children <= current_cells.len() {
                let mut has_all_siblings = true;

                // Use stride-based checking for all resolutions
                // First check if this cell is a first child (at a sibling group boundary)
                if is_first_child(cell, Some(resolution)) {
                    let stride = get_stride(resolution);

                    // Check that all expected siblings are present with correct stride
                    for j in 1..expected_children {
                        let expected_cell = cell + (j as u64) * stride;
                        if current_cells[i + j] != expected_cell {
                            has_all_siblings = false;
                            break;
                        }
                    }
                } else {
                    // First cell is not at a sibling group boundary
                    has_all_siblings = false;
                }

                if has_all_siblings {
                    // Compute parent only once when needed
                    let parent = cell_to_parent(cell, None)?;
                    result.push(parent);
                    i += expected_children;
                    changed = true;
                    continue;
                }
            }

            result.push(cell);
            i += 1;
        }

        current_cells = result;
    }

    Ok(current_cells)
}
