// A5
// SPDX-License-Identifier: Apache-2.0
// Copyright (c) A5 contributors

use crate::core::utils::Quat;

// The quaternions for a regular dodecahedron are computed from exact trigonometric values.
//
// Dodecahedron face centers (origins) can be defined exactly using trigonometry:
// - The north and south poles are at z=1 and z=-1
// - Two rings at z = ±sqrt(0.2), with radius 2 * sqrt(0.2)
//
// The computation involves:
// - cos36° = (√5 + 1) / 4, cos72° = (√5 - 1) / 4
// - sin36° = √(10 - 2√5) / 4, sin72° = √(10 + 2√5) / 4
// - Half-angle rotations: sinAlpha = √((1 - √0.2) / 2), cosAlpha = √((1 + √0.2) / 2)

/// Array of 12 quaternions representing rotations for each face of a regular dodecahedron
///
/// The quaternions are arranged as follows:
/// - Index 0: North pole (identity quaternion)
/// - Indices 1-5: First ring around the north pole
/// - Indices 6-10: Second ring around the south pole  
/// - Index 11: South pole
///
/// Each quaternion represents the rotation needed to transform the north pole (0,0,1)
/// to the center of the corresponding dodecahedron face.
pub const QUATERNIONS: [Quat; 12] = [
    [0.0, 0.0, 0.0, 1.0], // 0: North pole (identity)
    // First ring (indices 1-5): z component = 0, w component = cosAlpha
    [0.0, 0.5257311121191336, 0.0, 0.8506508083520399], // 1
    [-0.5, 0.16245984811645314, 0.0, 0.8506508083520399], // 2
    [
        -0.30901699437494745,
        -0.42532540417602,
        0.0,
        0.8506508083520399,
    ], // 3
    [
        0.30901699437494745,
        -0.42532540417602,
        0.0,
        0.8506508083520399,
    ], // 4
    [0.5, 0.16245984811645314, 0.0, 0.8506508083520399], // 5
    // Second ring (indices 6-10): z component = 0, w component = sinAlpha
    [0.0, -0.8506508083520399, 0.0, 0.5257311121191336], // 6
    [
        0.8090169943749475,
        -0.2628655560595668,
        0.0,
        0.5257311121191336,
    ], // 7
    [0.5, 0.6881909602355868, 0.0, 0.5257311121191336],  // 8
    [-0.5, 0.6881909602355868, 0.0, 0.5257311121191336], // 9
    [
        -0.8090169943749475,
        -0.2628655560595668,
        0.0,
        0.5257311121191336,
    ], // 10
    [0.0, -1.0, 0.0, 0.0],                               // 11: South pole
];

#[cfg(test)]
mod tests {
    use super::*;

    const COS_ALPHA: f64 = 0.8506508083520399;
    const SIN_ALPHA: f64 = 0.5257311121191336;

    #[test]
    fn test_quaternions_length() {
        assert_eq!(QUATERNIONS.len(), 12);
    }

    #[test]
    fn test_quaternions_normalized() {
        for (i, q) in QUATERNIONS.iter().enumerate() {
            let magnitude = (q[0] * q[0] + q[1] * q[1] + q[2] * q[2] + q[3] * q[3]).sqrt();
            assert!(
                (magnitude - 1.0).abs() < 1e-10,
                "Quaternion {} is not normalized: magnitude = {}",
                i,
                magnitude
            );
        }
    }

    #[test]
    fn test_north_pole_identity() {
        assert_eq!(QUATERNIONS[0], [0.0, 0.0, 0.0, 1.0]);
    }

    #[test]
    fn test_south_pole() {
        assert_eq!(QUATERNIONS[11], [0.0, -1.0, 0.0, 0.0]);
    }

    #[test]
    fn test_first_ring_structure() {
        for q in QUATERNIONS.iter().take(6).skip(1) {
            // Third component should be 0 for first ring
            assert!((q[2] - 0.0).abs() < 1e-15);
            // Fourth component should be cosAlpha for first ring
            assert!((q[3] - COS_ALPHA).abs() < 1e-10);
        }
    }

    #[test]
    fn test_second_ring_structure() {
        for q in QUATERNIONS.iter().take(11).skip(6) {
            // Third component should be 0 for second ring
            assert!((q[2] - 0.0).abs() < 1e-15);
            // Fourth component should be sinAlpha for second ring
            assert!((q[3] - SIN_ALPHA).abs() < 1e-10);
        }
    }
}
