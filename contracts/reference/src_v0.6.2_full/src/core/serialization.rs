// A5
// SPDX-License-Identifier: Apache-2.0
// Copyright (c) A5 contributors

use crate::core::origin::get_origins;
use crate::core::utils::{A5Cell, OriginId};

pub const FIRST_HILBERT_RESOLUTION: i32 = 2;
pub const MAX_RESOLUTION: i32 = 30;
pub const HILBERT_START_BIT: u32 = 58; // 64 - 6 bits for origin & segment

// First 6 bits 0, remaining 58 bits 1
pub const REMOVAL_MASK: u64 = 0x03ffffffffffffff;

// First 6 bits 1, remaining 58 bits 0
pub const ORIGIN_SEGMENT_MASK: u64 = 0xfc00000000000000;

// All 64 bits 1
pub const ALL_ONES: u64 = 0xffffffffffffffff;

// Abstract cell that contains the whole world, has resolution -1 and 12 children,
// which are the res0 cells.
pub const WORLD_CELL: u64 = 0;

pub fn get_resolution(index: u64) -> i32 {
    // Find resolution from position of first non-00 bits from the right
    let mut resolution = MAX_RESOLUTION - 1;
    let mut shifted = index >> 1; // TODO check if non-zero for point level

    while resolution > -1 && (shifted & 0b1) == 0 {
        resolution -= 1;
        // For non-Hilbert resolutions, resolution marker moves by 1 bit per resolution
        // For Hilbert resolutions, resolution marker moves by 2 bits per resolution
        shifted >>= if resolution < FIRST_HILBERT_RESOLUTION {
            1
        } else {
            2
        };
    }

    resolution
}

pub fn deserialize(index: u64) -> Result<A5Cell, String> {
    let resolution = get_resolution(index);

    // Technically not a resolution, but can be useful to think of as an
    // abstract cell that contains the whole world
    if resolution == -1 {
        return Ok(A5Cell {
            origin_id: 0,
            segment: 0,
            s: 0,
            resolution,
        });
    }

    // Extract origin*segment from top 6 bits
    let top6_bits = (index >> 58) as usize;

    // Find origin and segment that multiply to give this product
    let (origin_id, segment) = if resolution == 0 {
        let origin_id = top6_bits;
        let origins = get_origins();
        if origin_id >= origins.len() {
            return Err(format!("Could not parse origin: {}", top6_bits));
        }
        (origin_id as OriginId, 0)
    } else {
        let origin_id = top6_bits / 5;
        let origins = get_origins();
        if origin_id >= origins.len() {
            return Err(format!("Could not parse origin: {}", top6_bits));
        }
        let origin = &origins[origin_id];
        let segment = (top6_bits + origin.first_quintant) % 5;
        (origin_id as OriginId, segment)
    };

    if resolution < FIRST_HILBERT_RESOLUTION {
        return Ok(A5Cell {
            origin_id,
            segment,
            s: 0,
            resolution,
        });
    }

    // Mask away origin & segment and shift away resolution and 00 bits
    let hilbert_levels = resolution - FIRST_HILBERT_RESOLUTION + 1;
    let hilbert_bits = 2 * hilbert_levels as u32;
    let shift = HILBERT_START_BIT - hilbert_bits;
    let s = (index & REMOVAL_MASK) >> shift;

    Ok(A5Cell {
        origin_id,
        segment,
        s,
        resolution,
    })
}

pub fn serialize(cell: &A5Cell) -> Result<u64, String> {
    let A5Cell {
        origin_id,
        segment,
        s,
        resolution,
    } = cell;

    if *resolution > MAX_RESOLUTION {
        return Err(format!("Resolution ({}) is too large", resolution));
    }

    if *resolution == -1 {
        return Ok(WORLD_CELL);
    }

    // Position of resolution marker as bit shift from LSB
    let r = if *resolution < FIRST_HILBERT_RESOLUTION {
        // For non-Hilbert resolutions, resolution marker moves by 1 bit per resolution
        *resolution as u32 + 1
    } else {
        // For Hilbert resolutions, resolution marker moves by 2 bits per resolution
        let hilbert_resolution = 1 + *resolution - FIRST_HILBERT_RESOLUTION;
        2 * hilbert_resolution as u32 + 1
    };

    // First 6 bits are the origin id and the segment
    let origin = &crate::core::origin::get_origins()[*origin_id as usize];
    let segment_n = (*segment + 5 - origin.first_quintant) % 5;

    let mut index = if *resolution == 0 {
        (*origin_id as u64) << 58
    } else {
        ((5 * (*origin_id as usize) + segment_n) as u64) << 58
    };

    if *resolution >= FIRST_HILBERT_RESOLUTION {
        // Number of bits required for S Hilbert curve
        let hilbert_levels = *resolution - FIRST_HILBERT_RESOLUTION + 1;
        let hilbert_bits = 2 * hilbert_levels as u32;

        // Check if S fits in the required bits
        let max_s = 1u64 << hilbert_bits;
        if *s >= max_s {
            return Err(format!(
                "S ({}) is too large for resolution level {}",
                s, resolution
            ));
        }

        // S is already u64
        let s_u64 = *s;

        // Next (2 * hilbertResolution) bits are S (hilbert index within segment)
        index += s_u64 << (HILBERT_START_BIT - hilbert_bits);
    }

    // Resolution is encoded by position of the least significant 1
    index |= 1u64 << (HILBERT_START_BIT - r);

    Ok(index)
}

pub fn cell_to_children(index: u64, child_resolution: Option<i32>) -> Result<Vec<u64>, String> {
    let cell = deserialize(index)?;
    let A5Cell {
        origin_id,
        segment,
        s,
        resolution: current_resolution,
    } = cell;
    let new_resolution = child_resolution.unwrap_or(current_resolution + 1);

    if new_resolution < current_resolution {
        return Err(format!(
            "Target resolution ({}) must be equal to or greater than current resolution ({})",
            new_resolution, current_resolution
        ));
    }

    if new_resolution > MAX_RESOLUTION {
        return Err(format!(
            "Target resolution ({}) exceeds maximum resolution ({})",
            new_resolution, MAX_RESOLUTION
        ));
    }

    // If target resolution equals current resolution, return the original cell
    if new_resolution == current_resolution {
        return Ok(vec![index]);
    }

    let mut new_origin_ids = vec![origin_id];
    let mut new_segments = vec![segment];

    if current_resolution == -1 {
        new_origin_ids = (0..12).collect();
    }

    if (current_resolution == -1 && new_resolution > 0) || current_resolution == 0 {
        new_segments = vec![0, 1, 2, 3, 4];
    }

    let resolution_diff =
        new_resolution - std::cmp::max(current_resolution, FIRST_HILBERT_RESOLUTION - 1);
    let children_count = if resolution_diff <= 0 {
        1
    } else if resolution_diff > 20 {
        // Prevent overflow
        return Err("Resolution difference too large".to_string());
    } else {
        4_usize.pow(resolution_diff as u32)
    };
    let mut children = Vec::new();
    let shifted_s = if resolution_diff > 0 {
        s << (2 * resolution_diff)
    } else {
        s
    };

    for &new_origin_id in &new_origin_ids {
        for &new_segment in &new_segments {
            for i in 0..children_count {
                let new_s = shifted_s + i as u64;
                let new_cell = A5Cell {
                    origin_id: new_origin_id,
                    segment: new_segment,
                    s: new_s,
                    resolution: new_resolution,
                };
                children.push(serialize(&new_cell)?);
            }
        }
    }

    Ok(children)
}

pub fn cell_to_parent(index: u64, parent_resolution: Option<i32>) -> Result<u64, String> {
    let cell = deserialize(index)?;
    let A5Cell {
        origin_id,
        segment,
        s,
        resolution: current_resolution,
    } = cell;
    let new_resolution = parent_resolution.unwrap_or(current_resolution - 1);

    // Special case: parent of resolution 0 cells is the world cell
    if new_resolution == -1 {
        return Ok(WORLD_CELL);
    }

    if new_resolution < 0 {
        return Err(format!(
            "Target resolution ({}) cannot be negative",
            new_resolution
        ));
    }

    if new_resolution > current_resolution {
        return Err(format!(
            "Target resolution ({}) must be equal to or less than current resolution ({})",
            new_resolution, current_resolution
        ));
    }

    if new_resolution == current_resolution {
        return Ok(index);
    }

    let resolution_diff = current_resolution - new_resolution;
    let shifted_s = s >> (2 * resolution_diff);
    let new_cell = A5Cell {
        origin_id,
        segment,
        s: shifted_s,
        resolution: new_resolution,
    };

    serialize(&new_cell)
}

/// Returns resolution 0 cells of the A5 system, which serve as a starting point
/// for all higher-resolution subdivisions in the hierarchy.
///
/// Returns Array of 12 cell indices
pub fn get_res0_cells() -> Result<Vec<u64>, String> {
    cell_to_children(WORLD_CELL, Some(0))
}

/// Check whether index corresponds to first child of its parent
pub fn is_first_child(index: u64, resolution: Option<i32>) -> bool {
    let resolution = resolution.unwrap_or_else(|| get_resolution(index));

    if resolution < 2 {
        // For resolution 0: first child is origin 0 (child count = 12)
        // For resolution 1: first children are at multiples of 5 (child count = 5)
        let top6_bits = (index >> HILBERT_START_BIT) as usize;
        let child_count = if resolution == 0 { 12 } else { 5 };
        return top6_bits % child_count == 0;
    }

    let s_position = 2 * (MAX_RESOLUTION - resolution) as u32;
    let s_mask = 3u64 << s_position; // Mask for the 2 LSBs of S
    (index & s_mask) == 0
}

/// Difference between two neighbouring sibling cells at a given resolution
pub fn get_stride(resolution: i32) -> u64 {
    // Both level 0 & 1 just write values 0-11 or 0-59 to the first 6 bits
    if resolution < 2 {
        return 1u64 << HILBERT_START_BIT;
    }

    // For hilbert levels, the position shifts by 2 bits per resolution level
    let s_position = 2 * (MAX_RESOLUTION - resolution) as u32;
    1u64 << s_position
}
