// A5
// SPDX-License-Identifier: Apache-2.0
// Copyright (c) A5 contributors

use crate::coordinate_systems::{Face, LonLat};
use crate::core::constants::PI_OVER_5;
use crate::core::coordinate_transforms::{
    face_to_ij, from_lon_lat, normalize_longitudes, to_lon_lat, to_polar,
};
use crate::core::hilbert::{ij_to_s, s_to_anchor};
use crate::core::origin::{find_nearest_origin, quintant_to_segment, segment_to_quintant};
use crate::core::serialization::{deserialize, serialize, FIRST_HILBERT_RESOLUTION, WORLD_CELL};
use crate::core::tiling::{
    get_face_vertices, get_pentagon_vertices, get_quintant_polar, get_quintant_vertices,
};
use crate::core::utils::A5Cell;
use crate::geometry::pentagon::PentagonShape;
use crate::projections::dodecahedron::DodecahedronProjection;
use std::collections::HashSet;

/// Convert lon/lat coordinates to A5 cell ID
pub fn lonlat_to_cell(lonlat: LonLat, resolution: i32) -> Result<u64, String> {
    // Resolution -1 represents WORLD_CELL, which covers the entire world
    if resolution == -1 {
        return Ok(WORLD_CELL);
    }

    if resolution < FIRST_HILBERT_RESOLUTION {
        // For low resolutions there is no Hilbert curve, so we can just return as the result is exact
        let estimate = lonlat_to_estimate(lonlat, resolution)?;
        return serialize(&estimate);
    }

    let hilbert_resolution = 1 + resolution - FIRST_HILBERT_RESOLUTION;
    let mut samples = vec![lonlat];
    let n = 25;
    let scale = 50.0 / 2.0_f64.powi(hilbert_resolution);

    for i in 0..n {
        let r = (i as f64 / n as f64) * scale;
        let coordinate = LonLat::new(
            lonlat.longitude() + (i as f64).cos() * r,
            lonlat.latitude() + (i as f64).sin() * r,
        );
        samples.push(coordinate);
    }

    // Deduplicate estimates
    let mut estimate_set = HashSet::new();
    let mut unique_estimates = Vec::new();
    let mut cells = Vec::new();

    for sample in samples {
        let estimate = lonlat_to_estimate(sample, resolution)?;
        let estimate_key = serialize(&estimate)?;
        if !estimate_set.contains(&estimate_key) {
            estimate_set.insert(estimate_key);
            unique_estimates.push(estimate.clone());

            // Check if we have a hit, storing distance if not
            let distance = a5cell_contains_point(&estimate, lonlat)?;
            if distance > 0.0 {
                return serialize(&estimate);
            } else {
                cells.push((estimate, distance));
            }
        }
    }

    // As fallback, sort cells by distance and use the closest one
    cells.sort_by(|a, b| b.1.partial_cmp(&a.1).unwrap_or(std::cmp::Ordering::Equal));
    serialize(&cells[0].0)
}

/// The ij_to_s function uses the triangular lattice which only approximates the pentagon lattice
/// Thus this function only returns a cell nearby, and we need to search the neighbourhood to find the correct cell
/// TODO: Implement a more accurate function
fn lonlat_to_estimate(lonlat: LonLat, resolution: i32) -> Result<A5Cell, String> {
    let spherical = from_lon_lat(lonlat);
    let origin = find_nearest_origin(spherical);

    let dodecahedron = DodecahedronProjection::get_thread_local();
    let mut dodec_point = dodecahedron.forward(spherical, origin.id)?;
    let polar = to_polar(dodec_point);
    let quintant = get_quintant_polar(polar);
    let (segment, orientation) = quintant_to_segment(quintant, origin);

    if resolution < FIRST_HILBERT_RESOLUTION {
        // For low resolutions there is no Hilbert curve
        return Ok(A5Cell {
            s: 0,
            segment,
            origin_id: origin.id,
            resolution,
        });
    }

    // Rotate into right fifth
    if quintant != 0 {
        let extra_angle = 2.0 * PI_OVER_5.get() * quintant as f64;
        let cos_angle = (-extra_angle).cos();
        let sin_angle = (-extra_angle).sin();
        let rotated_x = cos_angle * dodec_point.x() - sin_angle * dodec_point.y();
        let rotated_y = sin_angle * dodec_point.x() + cos_angle * dodec_point.y();
        dodec_point = Face::new(rotated_x, rotated_y);
    }

    let hilbert_resolution = 1 + resolution - FIRST_HILBERT_RESOLUTION;
    let scale_factor = 2.0_f64.powi(hilbert_resolution);
    dodec_point = Face::new(
        dodec_point.x() * scale_factor,
        dodec_point.y() * scale_factor,
    );

    let ij = face_to_ij(dodec_point);
    let s = ij_to_s(ij, hilbert_resolution as usize, orientation);

    Ok(A5Cell {
        s,
        segment,
        origin_id: origin.id,
        resolution,
    })
}

/// Get the pentagon shape for a given A5 cell
pub fn get_pentagon(cell: &A5Cell) -> Result<PentagonShape, String> {
    let (quintant, orientation) = segment_to_quintant(cell.segment, cell.origin());

    if cell.resolution == FIRST_HILBERT_RESOLUTION - 1 {
        let pentagon_shape = get_quintant_vertices(quintant);
        return Ok(pentagon_shape);
    } else if cell.resolution == FIRST_HILBERT_RESOLUTION - 2 {
        let pentagon_shape = get_face_vertices();
        return Ok(pentagon_shape);
    }

    let hilbert_resolution = cell.resolution - FIRST_HILBERT_RESOLUTION + 1;
    let s_u64 = cell
        .s
        .to_string()
        .parse::<u64>()
        .map_err(|_| "Failed to convert BigInt to u64")?;
    let anchor = s_to_anchor(s_u64, hilbert_resolution as usize, orientation);
    let pentagon_shape = get_pentagon_vertices(hilbert_resolution, quintant, &anchor);
    Ok(pentagon_shape)
}

/// Convert A5 cell ID to lon/lat coordinates of cell center
pub fn cell_to_lonlat(cell: u64) -> Result<LonLat, String> {
    // WORLD_CELL represents the entire world, return (0, 0) as a reasonable default
    if cell == WORLD_CELL {
        return Ok(LonLat::new(0.0, 0.0));
    }

    let cell_data = deserialize(cell)?;
    let pentagon = get_pentagon(&cell_data)?;
    let dodecahedron = DodecahedronProjection::get_thread_local();
    let point = dodecahedron.inverse(pentagon.get_center(), cell_data.origin_id)?;
    Ok(to_lon_lat(point))
}

/// Options for cell boundary generation
pub struct CellToBoundaryOptions {
    /// Pass true to close the ring with the first point (default: true)
    pub closed_ring: bool,
    /// Number of segments to use for each edge. Pass None to use the resolution of the cell (default: None)
    pub segments: Option<i32>,
}

impl Default for CellToBoundaryOptions {
    fn default() -> Self {
        Self {
            closed_ring: true,
            segments: None,
        }
    }
}

/// Convert A5 cell ID to boundary coordinates
pub fn cell_to_boundary(
    cell_id: u64,
    options: Option<CellToBoundaryOptions>,
) -> Result<Vec<LonLat>, String> {
    // WORLD_CELL represents the entire world and is unbounded
    if cell_id == WORLD_CELL {
        return Ok(Vec::new());
    }

    let opts = options.unwrap_or_default();
    let cell_data = deserialize(cell_id)?;

    let segments = opts
        .segments
        .unwrap_or_else(|| std::cmp::max(1, 2_i32.pow((6 - cell_data.resolution).max(0) as u32)));

    let pentagon = get_pentagon(&cell_data)?;

    // Split each edge into segments before projection
    // Important to do before projection to obtain equal area cells
    let split_pentagon = pentagon.split_edges(segments as usize);
    let vertices = split_pentagon.get_vertices_vec();

    // Unproject to obtain lon/lat coordinates
    let dodecahedron = DodecahedronProjection::get_thread_local();
    let mut unprojected_vertices = Vec::new();
    for vertex in vertices {
        let unprojected = dodecahedron.inverse(*vertex, cell_data.origin_id)?;
        unprojected_vertices.push(unprojected);
    }

    let mut boundary = Vec::new();
    for vertex in unprojected_vertices {
        boundary.push(to_lon_lat(vertex));
    }

    // Normalize longitudes to handle antimeridian crossing
    let mut normalized_boundary = normalize_longitudes(boundary);

    if opts.closed_ring {
        let first_point = normalized_boundary[0];
        normalized_boundary.push(first_point);
    }

    // TODO: This is a patch to make the boundary CCW, but we should fix the winding order of the pentagon
    // throughout the whole codebase
    normalized_boundary.reverse();
    Ok(normalized_boundary)
}

/// Test if an A5 cell contains a given point
pub fn a5cell_contains_point(cell: &A5Cell, point: LonLat) -> Result<f64, String> {
    use crate::core::tiling::{get_face_vertices, get_quintant_vertices};

    let spherical = from_lon_lat(point);
    let dodecahedron = DodecahedronProjection::get_thread_local();
    let projected_point = dodecahedron.forward(spherical, cell.origin_id)?;

    let (quintant, _orientation) = segment_to_quintant(cell.segment, cell.origin());

    let containment_result = if cell.resolution == FIRST_HILBERT_RESOLUTION - 1 {
        // Use quintant vertices (triangle as PentagonShape)
        let pentagon_shape = get_quintant_vertices(quintant);
        pentagon_shape.contains_point(projected_point)
    } else if cell.resolution == FIRST_HILBERT_RESOLUTION - 2 {
        // Use face vertices (pentagon)
        let pentagon_shape = get_face_vertices();
        pentagon_shape.contains_point(projected_point)
    } else {
        // Use pentagon for higher resolutions
        let pentagon = get_pentagon(cell)?;
        pentagon.contains_point(projected_point)
    };

    Ok(containment_result)
}
