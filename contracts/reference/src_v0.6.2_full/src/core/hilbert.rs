// A5
// SPDX-License-Identifier: Apache-2.0
// Copyright (c) A5 contributors

use crate::coordinate_systems::{IJ, KJ};

pub type Quaternary = u8; // 0, 1, 2, 3

pub const YES: i8 = -1;
pub const NO: i8 = 1;
pub type Flip = i8;

#[derive(Debug, Clone, PartialEq)]
pub struct Anchor {
    pub k: Quaternary,
    pub offset: IJ,
    pub flips: [Flip; 2],
}

/// Anchor offset is specified in ij units, the eigenbasis of the Hilbert curve
/// Define k as the vector i + j, as it means vectors u & v are of unit length
pub fn ij_to_kj(ij: IJ) -> KJ {
    KJ::new(ij.x() + ij.y(), ij.y())
}

pub fn kj_to_ij(kj: KJ) -> IJ {
    IJ::new(kj.x() - kj.y(), kj.y())
}

/// Orientation of the Hilbert curve. The curve fills a space defined by the triangle with vertices
/// u, v & w. The orientation describes which corner the curve starts and ends at, e.g. wv is a
/// curve that starts at w and ends at v.
#[derive(Debug, Clone, Copy, PartialEq)]
pub enum Orientation {
    UV,
    VU,
    UW,
    WU,
    VW,
    WV,
}

impl Orientation {
    #[allow(dead_code)]
    fn from_str(s: &str) -> Option<Self> {
        match s {
            "uv" => Some(Self::UV),
            "vu" => Some(Self::VU),
            "uw" => Some(Self::UW),
            "wu" => Some(Self::WU),
            "vw" => Some(Self::VW),
            "wv" => Some(Self::WV),
            _ => None,
        }
    }
}

// Using KJ allows simplification of definitions
const K_POS: KJ = KJ(crate::coordinate_systems::vec2::Vec2 { x: 1.0, y: 0.0 }); // k
const J_POS: KJ = KJ(crate::coordinate_systems::vec2::Vec2 { x: 0.0, y: 1.0 }); // j
const K_NEG: KJ = KJ(crate::coordinate_systems::vec2::Vec2 { x: -1.0, y: 0.0 });
const J_NEG: KJ = KJ(crate::coordinate_systems::vec2::Vec2 { x: 0.0, y: -1.0 });
const ZERO: KJ = KJ(crate::coordinate_systems::vec2::Vec2 { x: 0.0, y: 0.0 });

pub fn quaternary_to_kj(n: Quaternary, flips: [Flip; 2]) -> KJ {
    let [flip_x, flip_y] = flips;

    // Indirection to allow for flips
    let (p, q) = match (flip_x, flip_y) {
        (NO, NO) => (K_POS, J_POS),
        (YES, NO) => (J_NEG, K_NEG),  // Swap and negate
        (NO, YES) => (J_POS, K_POS),  // Swap only
        (YES, YES) => (K_NEG, J_NEG), // Negate only
        _ => panic!("Invalid flip values"),
    };

    match n {
        0 => ZERO,                                              // Length 0
        1 => p,                                                 // Length 1
        2 => KJ::new(q.x() + p.x(), q.y() + p.y()),             // Length SQRT2
        3 => KJ::new(q.x() + 2.0 * p.x(), q.y() + 2.0 * p.y()), // Length SQRT5
        _ => panic!("Invalid Quaternary value: {}", n),
    }
}

pub fn quaternary_to_flips(n: Quaternary) -> [Flip; 2] {
    match n {
        0 => [NO, NO],
        1 => [NO, YES],
        2 => [NO, NO],
        3 => [YES, NO],
        _ => panic!("Invalid Quaternary value: {}", n),
    }
}

const FLIP_SHIFT: IJ = IJ(crate::coordinate_systems::vec2::Vec2 { x: -1.0, y: 1.0 });

// Patterns used to rearrange the cells when shifting. This adjusts the layout so that
// children always overlap with their parent cells.
fn reverse_pattern(pattern: &[usize]) -> Vec<usize> {
    let mut result = vec![0; pattern.len()];
    for (i, &val) in pattern.iter().enumerate() {
        result[val] = i;
    }
    result
}

const PATTERN: [usize; 8] = [0, 1, 3, 4, 5, 6, 7, 2];
const PATTERN_FLIPPED: [usize; 8] = [0, 1, 2, 7, 3, 4, 5, 6];

lazy_static::lazy_static! {
    static ref PATTERN_REVERSED: Vec<usize> = reverse_pattern(&PATTERN);
    static ref PATTERN_FLIPPED_REVERSED: Vec<usize> = reverse_pattern(&PATTERN_FLIPPED);
}

fn shift_digits(
    digits: &mut [Quaternary],
    i: usize,
    flips: [Flip; 2],
    invert_j: bool,
    pattern: &[usize],
) {
    if i == 0 {
        return;
    }

    let parent_k = digits[i];
    let child_k = digits[i - 1];
    let f = flips[0] + flips[1];

    // Detect when cells need to be shifted
    let needs_shift: bool;
    let first: bool;

    // The value of F which cells need to be shifted
    // The rule is flipped depending on the orientation, specifically on the value of invert_j
    if invert_j != (f == 0) {
        needs_shift = parent_k == 1 || parent_k == 2; // Second & third pentagons only
        first = parent_k == 1; // Second pentagon is first
    } else {
        needs_shift = parent_k < 2; // First two pentagons only
        first = parent_k == 0; // First pentagon is first
    }

    if !needs_shift {
        return;
    }

    // Apply the pattern by setting the digits based on the value provided
    let src = if first {
        child_k as usize
    } else {
        child_k as usize + 4
    };
    let dst = pattern[src];
    digits[i - 1] = (dst % 4) as Quaternary;
    digits[i] = ((parent_k as usize + 4 + dst / 4 - src / 4) % 4) as Quaternary;
}

pub fn s_to_anchor(s: u64, resolution: usize, orientation: Orientation) -> Anchor {
    let input = s;
    let reverse = matches!(
        orientation,
        Orientation::VU | Orientation::WU | Orientation::VW
    );
    let invert_j = matches!(orientation, Orientation::WV | Orientation::VW);
    let flip_ij = matches!(orientation, Orientation::WU | Orientation::UW);

    let adjusted_input = if reverse {
        (1u64 << (2 * resolution)) - input - 1
    } else {
        input
    };

    let mut anchor = s_to_anchor_internal(adjusted_input, resolution, invert_j, flip_ij);

    if flip_ij {
        let i = anchor.offset.x();
        let j = anchor.offset.y();
        anchor.offset = IJ::new(j, i);

        // The flips moved the origin of the cell, shift to compensate
        if anchor.flips[0] == YES {
            anchor.offset = IJ::new(
                anchor.offset.x() + FLIP_SHIFT.x(),
                anchor.offset.y() + FLIP_SHIFT.y(),
            );
        }
        if anchor.flips[1] == YES {
            anchor.offset = IJ::new(
                anchor.offset.x() - FLIP_SHIFT.x(),
                anchor.offset.y() - FLIP_SHIFT.y(),
            );
        }
    }

    if invert_j {
        let i = anchor.offset.x();
        let j = anchor.offset.y();
        let new_j = (1 << resolution) as f64 - (i + j);
        anchor.flips[0] = -anchor.flips[0];
        anchor.offset = IJ::new(i, new_j);
    }

    anchor
}

pub fn s_to_anchor_internal(s: u64, resolution: usize, invert_j: bool, flip_ij: bool) -> Anchor {
    let mut offset = ZERO;
    let mut flips = [NO, NO];
    let mut input = s;

    // Get all quaternary digits first
    let mut digits = Vec::new();
    while input > 0 || digits.len() < resolution {
        digits.push((input % 4) as Quaternary);
        input >>= 2;
    }

    let pattern = if flip_ij { &PATTERN_FLIPPED } else { &PATTERN };

    // Process digits from left to right (most significant first)
    for i in (0..digits.len()).rev() {
        shift_digits(&mut digits, i, flips, invert_j, pattern);
        let next_flips = quaternary_to_flips(digits[i]);
        flips[0] *= next_flips[0];
        flips[1] *= next_flips[1];
    }

    flips = [NO, NO]; // Reset flips for the next loop
    for i in (0..digits.len()).rev() {
        // Scale up existing anchor
        offset = KJ::new(offset.x() * 2.0, offset.y() * 2.0);

        // Get child anchor and combine with current anchor
        let child_offset = quaternary_to_kj(digits[i], flips);
        offset = KJ::new(offset.x() + child_offset.x(), offset.y() + child_offset.y());

        let next_flips = quaternary_to_flips(digits[i]);
        flips[0] *= next_flips[0];
        flips[1] *= next_flips[1];
    }

    let k = digits.first().copied().unwrap_or(0);

    Anchor {
        flips,
        k,
        offset: kj_to_ij(offset),
    }
}

/// Get the number of digits needed to represent the offset
/// As we don't know the flips we need to add 2 to include the next row
pub fn get_required_digits(offset: IJ) -> usize {
    let index_sum = offset.x().ceil() + offset.y().ceil(); // TODO perhaps use floor instead
    if index_sum == 0.0 {
        return 1;
    }
    1 + (index_sum.log2().floor() as usize)
}

/// This function uses the ij basis, unlike its inverse!
pub fn ij_to_quaternary(ij: IJ, flips: [Flip; 2]) -> Quaternary {
    let u = ij.x();
    let v = ij.y();
    let digit: Quaternary;

    // Boundaries to compare against
    let a = if flips[0] == YES { -(u + v) } else { u + v };
    let b = if flips[1] == YES { -u } else { u };
    let c = if flips[0] == YES { -v } else { v };

    // Only one flip
    if flips[0] + flips[1] == 0 {
        if c < 1.0 {
            digit = 0;
        } else if b > 1.0 {
            digit = 3;
        } else if a > 1.0 {
            digit = 2;
        } else {
            digit = 1;
        }
    // No flips or both
    } else if a < 1.0 {
        digit = 0;
    } else if b > 1.0 {
        digit = 3;
    } else if c > 1.0 {
        digit = 2;
    } else {
        digit = 1;
    }

    digit
}

pub fn ij_to_s(input: IJ, resolution: usize, orientation: Orientation) -> u64 {
    let reverse = matches!(
        orientation,
        Orientation::VU | Orientation::WU | Orientation::VW
    );
    let invert_j = matches!(orientation, Orientation::WV | Orientation::VW);
    let flip_ij = matches!(orientation, Orientation::WU | Orientation::UW);

    let mut ij = input;
    if flip_ij {
        ij = IJ::new(input.y(), input.x());
    }
    if invert_j {
        let i = ij.x();
        let j = ij.y();
        ij = IJ::new(i, (1 << resolution) as f64 - (i + j));
    }

    let s = ij_to_s_internal(ij, invert_j, flip_ij, resolution);
    if reverse {
        (1u64 << (2 * resolution)) - s - 1
    } else {
        s
    }
}

pub fn ij_to_s_internal(input: IJ, invert_j: bool, flip_ij: bool, resolution: usize) -> u64 {
    // Get number of digits we need to process
    let num_digits = resolution;
    let mut digits = vec![0u8; num_digits];

    let mut flips = [NO, NO];
    let mut pivot = IJ::new(0.0, 0.0);

    // Process digits from left to right (most significant first)
    for i in (0..num_digits).rev() {
        let relative_offset = IJ::new(input.x() - pivot.x(), input.y() - pivot.y());

        let scale = 1.0 / (1u64 << i) as f64;
        let scaled_offset = IJ::new(relative_offset.x() * scale, relative_offset.y() * scale);

        let digit = ij_to_quaternary(scaled_offset, flips);
        digits[i] = digit;

        // Update running state
        let child_offset = kj_to_ij(quaternary_to_kj(digit, flips));
        let upscaled_child_offset = IJ::new(
            child_offset.x() * (1u64 << i) as f64,
            child_offset.y() * (1u64 << i) as f64,
        );
        pivot = IJ::new(
            pivot.x() + upscaled_child_offset.x(),
            pivot.y() + upscaled_child_offset.y(),
        );

        let next_flips = quaternary_to_flips(digit);
        flips[0] *= next_flips[0];
        flips[1] *= next_flips[1];
    }

    let pattern: &[usize] = if flip_ij {
        &PATTERN_FLIPPED_REVERSED
    } else {
        &PATTERN_REVERSED
    };

    for i in 0..digits.len() {
        let next_flips = quaternary_to_flips(digits[i]);
        flips[0] *= next_flips[0];
        flips[1] *= next_flips[1];
        shift_digits(&mut digits, i, flips, invert_j, pattern);
    }

    let mut output = 0u64;
    for (i, &digit) in digits.iter().enumerate().rev() {
        let scale = 1u64 << (2 * i);
        output += (digit as u64) * scale;
    }

    output
}
