// A5
// SPDX-License-Identifier: Apache-2.0
// Copyright (c) A5 contributors

pub mod cell;
pub mod cell_info;
pub mod compact;
pub mod constants;
pub mod coordinate_transforms;
pub mod dodecahedron_quaternions;
pub mod hex;
pub mod hilbert;
pub mod origin;
pub mod pentagon;
pub mod serialization;
pub mod tiling;
pub mod utils;
