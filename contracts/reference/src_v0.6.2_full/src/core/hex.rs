// A5
// SPDX-License-Identifier: Apache-2.0
// Copyright (c) A5 contributors

/// Converts a hexadecimal string to a u64
///
/// # Arguments
///
/// * `hex` - A string containing a hexadecimal number
///
/// # Returns
///
/// A u64 representing the hexadecimal value
pub fn hex_to_u64(hex: &str) -> Result<u64, String> {
    u64::from_str_radix(hex, 16).map_err(|e| format!("Invalid hex string: {}", e))
}

/// Converts a u64 to a hexadecimal string
///
/// # Arguments
///
/// * `value` - A u64 to convert
///
/// # Returns
///
/// A string containing the hexadecimal representation
pub fn u64_to_hex(value: u64) -> String {
    format!("{value:x}")
}
