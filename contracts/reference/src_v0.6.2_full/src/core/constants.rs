// A5
// SPDX-License-Identifier: Apache-2.0
// Copyright (c) A5 contributors

use crate::coordinate_systems::Radians;

/// Golden ratio
pub const PHI: f64 = 1.618033988749895; // (1 + sqrt(5)) / 2

/// 2π radians
pub const TWO_PI: Radians = Radians::new_unchecked(std::f64::consts::TAU);

/// 2π/5 radians
pub const TWO_PI_OVER_5: Radians = Radians::new_unchecked(std::f64::consts::TAU / 5.0);

/// π/5 radians
pub const PI_OVER_5: Radians = Radians::new_unchecked(std::f64::consts::PI / 5.0);

/// π/10 radians
pub const PI_OVER_10: Radians = Radians::new_unchecked(std::f64::consts::PI / 10.0);

/// Angle between pentagon faces (radians) = 116.565°
pub const DIHEDRAL_ANGLE: Radians = Radians::new_unchecked(2.0344439357957027); // 2 * atan(φ)

/// Angle between pentagon faces (radians) = 63.435°
pub const INTERHEDRAL_ANGLE: Radians = Radians::new_unchecked(1.1071487177940904); // π - dihedral_angle

/// Face edge angle = 58.28252558853899
pub const FACE_EDGE_ANGLE: Radians = Radians::new_unchecked(1.0172219678978514); // -0.5 * π + acos(-1 / sqrt(3 - φ))

/// Distance from center to edge of pentagon face
pub const DISTANCE_TO_EDGE: f64 = 0.6180339887498949; // (sqrt(5) - 1) / 2, which is φ - 1

/// Distance from center to vertex of pentagon face
pub const DISTANCE_TO_VERTEX: f64 = 0.7639320225002102; // 3 - sqrt(5), which is 2 * (2 - φ)

/// Radius of the inscribed sphere in dodecahedron
pub const R_INSCRIBED: f64 = 1.0;

/// Radius of the sphere that touches the dodecahedron's edge midpoints
pub const R_MIDEDGE: f64 = 1.1755705045849463; // sqrt(3 - φ)

/// Radius of the circumscribed sphere for dodecahedron
pub const R_CIRCUMSCRIBED: f64 = 1.2584085723648188; // sqrt(3) * R_MIDEDGE / φ
