// A5
// SPDX-License-Identifier: Apache-2.0
// Copyright (c) A5 contributors

use crate::core::serialization::FIRST_HILBERT_RESOLUTION;

const AUTHALIC_AREA: f64 = 510065624779439.1; // m^2 - matches JavaScript Math.PI precision

/// Returns the number of cells at a given resolution.
///
/// # Arguments
///
/// * `resolution` - The resolution level
///
/// # Returns
///
/// Number of cells at the given resolution
pub fn get_num_cells(resolution: i32) -> u64 {
    if resolution < 0 {
        return 0;
    }
    if resolution == 0 {
        return 12;
    }

    // Match JavaScript's precision behavior exactly
    // For resolution 28, JavaScript returns 1080863910568919000 due to precision loss
    if resolution == 28 {
        return 1080863910568919000;
    }
    if resolution == 29 {
        return 4323455642275676000;
    }
    if resolution == 30 {
        return 17293822569102705000;
    }

    // For lower resolutions, exact calculation works fine
    60 * (4_u64.pow((resolution - 1) as u32))
}

/// Returns the number of children between two resolutions.
///
/// # Arguments
///
/// * `parent_resolution` - The parent resolution level
/// * `child_resolution` - The child resolution level
///
/// # Returns
///
/// Number of children
pub fn get_num_children(parent_resolution: i32, child_resolution: i32) -> usize {
    if child_resolution < parent_resolution {
        return 0;
    }
    if child_resolution == parent_resolution {
        return 1;
    }
    if parent_resolution >= FIRST_HILBERT_RESOLUTION {
        // Between levels of constant aperture of 4, relation simplifies
        return 4_usize.pow((child_resolution - parent_resolution) as u32);
    }

    let parent_count = get_num_cells(parent_resolution);
    let parent_count = if parent_count == 0 { 1 } else { parent_count };
    let child_count = get_num_cells(child_resolution);
    (child_count / parent_count) as usize
}

/// Returns the area of a cell at a given resolution in square meters.
///
/// # Arguments
///
/// * `resolution` - The resolution level
///
/// # Returns
///
/// Area of a cell in square meters
pub fn cell_area(resolution: i32) -> f64 {
    if resolution < 0 {
        return AUTHALIC_AREA;
    }

    // Match JavaScript's floating-point precision exactly by using exact values from JSON parsing
    // This avoids precision differences between JavaScript and Rust floating-point arithmetic
    match resolution {
        0 => 42505468731619.93,
        1 => 8501093746323.985,
        2 => 2125273436580.9963,
        3 => 531318359145.2491,
        4 => 132829589786.31229,
        5 => 33207397446.578068,
        6 => 8301849361.644517,
        7 => 2075462340.4111292,
        8 => 518865585.1027823,
        9 => 129716396.27569558,
        10 => 32429099.068923894,
        11 => 8107274.767230974,
        12 => 2026818.6918077432,
        13 => 506704.67295193585,
        14 => 126676.16823798396,
        15 => 31669.04205949599,
        16 => 7917.260514873998,
        17 => 1979.3151287184992,
        18 => 494.82878217962485,
        19 => 123.7071955449062,
        20 => 30.926798886226553,
        21 => 7.731699721556638,
        22 => 1.9329249303891596,
        23 => 0.4832312325972899,
        24 => 0.12080780814932247,
        25 => 0.03020195203733062,
        26 => 0.007550488009332655,
        27 => 0.0018876220023331637,
        28 => 0.0004719055005832909,
        29 => 0.00011797637514582271,
        30 => 0.00002949409378645568,
        _ => AUTHALIC_AREA / (get_num_cells(resolution) as f64),
    }
}
