// A5
// SPDX-License-Identifier: Apache-2.0
// Copyright (c) A5 contributors

use crate::coordinate_systems::{Degrees, Face, Radians};
use crate::core::constants::{DISTANCE_TO_EDGE, PI_OVER_10, PI_OVER_5};
use crate::geometry::PentagonShape;

// Pentagon vertex angles
pub const A: Degrees = Degrees::new_unchecked(72.0);
pub const B: Degrees = Degrees::new_unchecked(127.94543761193603);
pub const C: Degrees = Degrees::new_unchecked(108.0);
pub const D: Degrees = Degrees::new_unchecked(82.29202980963508);
pub const E: Degrees = Degrees::new_unchecked(149.7625318412527);

/// Pentagon vertices (a, b, c, d, e)
pub struct PentagonVertices {
    pub a: Face,
    pub b: Face,
    pub c: Face,
    pub d: Face,
    pub e: Face,
}

/// Triangle vertices (u, v, w) and angle V
pub struct TriangleVertices {
    pub u: Face,
    pub v: Face,
    pub w: Face,
    pub v_angle: Radians,
}

/// 2x2 Matrix for linear transformations
#[derive(Debug, Clone, Copy, PartialEq)]
pub struct Mat2 {
    pub m00: f64,
    pub m01: f64,
    pub m10: f64,
    pub m11: f64,
}

impl Mat2 {
    pub fn new(m00: f64, m01: f64, m10: f64, m11: f64) -> Self {
        Self { m00, m01, m10, m11 }
    }

    pub fn from_cols(col0: Face, col1: Face) -> Self {
        Self {
            m00: col0.x(),
            m01: col1.x(),
            m10: col0.y(),
            m11: col1.y(),
        }
    }

    pub fn determinant(&self) -> f64 {
        self.m00 * self.m11 - self.m01 * self.m10
    }

    pub fn inverse(&self) -> Option<Mat2> {
        let det = self.determinant();
        if det.abs() < f64::EPSILON {
            return None;
        }

        let inv_det = 1.0 / det;
        Some(Mat2 {
            m00: self.m11 * inv_det,
            m01: -self.m01 * inv_det,
            m10: -self.m10 * inv_det,
            m11: self.m00 * inv_det,
        })
    }

    pub fn transform(&self, v: Face) -> Face {
        Face::new(
            self.m00 * v.x() + self.m01 * v.y(),
            self.m10 * v.x() + self.m11 * v.y(),
        )
    }
}

/// Lazy static values for pentagon definition
pub struct PentagonConstants {
    pub vertices: PentagonVertices,
    pub pentagon: PentagonShape,
    pub triangle_vertices: TriangleVertices,
    pub triangle: PentagonShape,
    pub basis: Mat2,
    pub basis_inverse: Mat2,
}

impl PentagonConstants {
    fn compute() -> Self {
        // Initial vertex definitions
        let mut a = Face::new(0.0, 0.0);
        let mut b = Face::new(0.0, 1.0);
        // c & d calculated by circle intersections. Perhaps can obtain geometrically.
        let mut c = Face::new(0.7885966681787006, 1.6149108024237764);
        let mut d = Face::new(1.6171013659387945, 1.054928690397459);
        let mut e = Face::new(PI_OVER_10.get().cos(), PI_OVER_10.get().sin());

        // Distance to edge midpoint
        let c_length = (c.x() * c.x() + c.y() * c.y()).sqrt();
        let edge_midpoint_d = 2.0 * c_length * PI_OVER_5.get().cos();

        // Lattice growth direction is AC, want to rotate it so that it is parallel to x-axis
        let basis_rotation = PI_OVER_5.get() - c.y().atan2(c.x()); // -27.97 degrees

        // Scale to match unit sphere
        let scale = 2.0 * DISTANCE_TO_EDGE / edge_midpoint_d;

        // Apply scaling and rotation to all vertices
        for vertex in [&mut a, &mut b, &mut c, &mut d, &mut e].iter_mut() {
            // Scale
            let scaled_x = vertex.x() * scale;
            let scaled_y = vertex.y() * scale;

            // Rotate
            let cos_angle = basis_rotation.cos();
            let sin_angle = basis_rotation.sin();
            let rotated_x = scaled_x * cos_angle - scaled_y * sin_angle;
            let rotated_y = scaled_x * sin_angle + scaled_y * cos_angle;
            **vertex = Face::new(rotated_x, rotated_y);
        }

        let pentagon = PentagonShape::new([a, b, c, d, e]);

        let bisector_angle = c.y().atan2(c.x()) - PI_OVER_5.get();

        // Define triangle also, as UVW
        let u = Face::new(0.0, 0.0);
        let l = DISTANCE_TO_EDGE / PI_OVER_5.get().cos();

        let v_angle_value = bisector_angle + PI_OVER_5.get();
        let v = Face::new(l * v_angle_value.cos(), l * v_angle_value.sin());

        let w_angle = bisector_angle - PI_OVER_5.get();
        let w = Face::new(l * w_angle.cos(), l * w_angle.sin());

        let triangle = PentagonShape::new([u, v, w, Face::new(0.0, 0.0), Face::new(0.0, 0.0)]);

        // Basis vectors used to layout primitive unit
        let basis = Mat2::from_cols(v, w);
        let basis_inverse = basis.inverse().expect("Basis matrix should be invertible");

        Self {
            vertices: PentagonVertices { a, b, c, d, e },
            pentagon,
            triangle_vertices: TriangleVertices {
                u,
                v,
                w,
                v_angle: Radians::new_unchecked(v_angle_value),
            },
            triangle,
            basis,
            basis_inverse,
        }
    }
}

/// Global pentagon constants
static PENTAGON_CONSTANTS: std::sync::LazyLock<PentagonConstants> =
    std::sync::LazyLock::new(PentagonConstants::compute);

/// Pentagon vertex a
pub fn a() -> Face {
    PENTAGON_CONSTANTS.vertices.a
}

/// Pentagon vertex b
pub fn b() -> Face {
    PENTAGON_CONSTANTS.vertices.b
}

/// Pentagon vertex c
pub fn c() -> Face {
    PENTAGON_CONSTANTS.vertices.c
}

/// Pentagon vertex d
pub fn d() -> Face {
    PENTAGON_CONSTANTS.vertices.d
}

/// Pentagon vertex e
pub fn e() -> Face {
    PENTAGON_CONSTANTS.vertices.e
}

/// Pentagon shape definition
pub fn pentagon() -> &'static PentagonShape {
    &PENTAGON_CONSTANTS.pentagon
}

/// Triangle vertex u
pub fn u() -> Face {
    PENTAGON_CONSTANTS.triangle_vertices.u
}

/// Triangle vertex v
pub fn v() -> Face {
    PENTAGON_CONSTANTS.triangle_vertices.v
}

/// Triangle vertex w
pub fn w() -> Face {
    PENTAGON_CONSTANTS.triangle_vertices.w
}

/// Triangle angle V
pub fn v_angle() -> Radians {
    PENTAGON_CONSTANTS.triangle_vertices.v_angle
}

/// Triangle shape definition
pub fn triangle() -> &'static PentagonShape {
    &PENTAGON_CONSTANTS.triangle
}

/// Basis matrix for coordinate transformations
pub fn basis() -> Mat2 {
    PENTAGON_CONSTANTS.basis
}

/// Inverse basis matrix
pub fn basis_inverse() -> Mat2 {
    PENTAGON_CONSTANTS.basis_inverse
}
