// A5
// SPDX-License-Identifier: Apache-2.0
// Copyright (c) A5 contributors

use crate::coordinate_systems::{Face, Polar};
use crate::core::constants::TWO_PI_OVER_5;
use crate::core::hilbert::{Anchor, NO, YES};
use crate::core::pentagon::{basis, pentagon, triangle, v, w, Mat2};
use crate::geometry::PentagonShape;

const TRIANGLE_MODE: bool = false;

/// Shift right vector (clone of w)
fn shift_right() -> Face {
    w()
}

/// Shift left vector (negative w)
fn shift_left() -> Face {
    let w_vec = w();
    Face::new(-w_vec.x(), -w_vec.y())
}

/// Generate quintant rotation matrices
fn quintant_rotations() -> [Mat2; 5] {
    let mut rotations = [Mat2::new(1.0, 0.0, 0.0, 1.0); 5];

    for (quintant, rotation) in rotations.iter_mut().enumerate() {
        let angle = (TWO_PI_OVER_5).0 * quintant as f64;
        let cos_angle = angle.cos();
        let sin_angle = angle.sin();
        *rotation = Mat2::new(cos_angle, -sin_angle, sin_angle, cos_angle);
    }

    rotations
}

/// Transform a pentagon shape using a 2x2 matrix
fn transform_pentagon(pentagon: &mut PentagonShape, matrix: &Mat2) {
    let vertices = pentagon.get_vertices_vec();
    let mut transformed_vertices = Vec::new();

    for vertex in vertices {
        let transformed_x = matrix.m00 * vertex.x() + matrix.m01 * vertex.y();
        let transformed_y = matrix.m10 * vertex.x() + matrix.m11 * vertex.y();
        transformed_vertices.push(Face::new(transformed_x, transformed_y));
    }

    // Create new pentagon with transformed vertices - need 5 for Pentagon type
    if transformed_vertices.len() == 5 {
        let pentagon_vertices: [Face; 5] = [
            transformed_vertices[0],
            transformed_vertices[1],
            transformed_vertices[2],
            transformed_vertices[3],
            transformed_vertices[4],
        ];
        *pentagon = PentagonShape::new(pentagon_vertices);
    } else if transformed_vertices.len() == 3 {
        let pentagon_vertices: [Face; 3] = [
            transformed_vertices[0],
            transformed_vertices[1],
            transformed_vertices[2],
        ];
        *pentagon = PentagonShape::new_triangle(pentagon_vertices);
    }
}

/// Get pentagon vertices with transformations applied
///
/// # Arguments
///
/// * `resolution` - The resolution level
/// * `quintant` - The quintant index (0-4)  
/// * `anchor` - The anchor information containing offset and flip data
///
/// # Returns
///
/// A pentagon shape with transformed vertices
pub fn get_pentagon_vertices(resolution: i32, quintant: usize, anchor: &Anchor) -> PentagonShape {
    let mut pentagon_shape = if TRIANGLE_MODE {
        triangle().clone()
    } else {
        pentagon().clone()
    };

    // Transform anchor offset using basis matrix
    let basis_mat = basis();
    let translation_x = basis_mat.m00 * anchor.offset.x() + basis_mat.m01 * anchor.offset.y();
    let translation_y = basis_mat.m10 * anchor.offset.x() + basis_mat.m11 * anchor.offset.y();
    let translation = Face::new(translation_x, translation_y);

    // Apply transformations based on anchor properties
    if anchor.flips[0] == NO && anchor.flips[1] == YES {
        pentagon_shape.rotate180();
    }

    let k = anchor.k;
    let f = anchor.flips[0] + anchor.flips[1];

    if
    // Orient last two pentagons when both or neither flips are YES
    ((f == -2 || f == 2) && k > 1) ||
        // Orient first & last pentagons when only one of flips is YES  
        (f == 0 && (k == 0 || k == 3))
    {
        pentagon_shape.reflect_y();
    }

    if anchor.flips[0] == YES && anchor.flips[1] == YES {
        pentagon_shape.rotate180();
    } else if anchor.flips[0] == YES {
        pentagon_shape.translate(shift_left());
    } else if anchor.flips[1] == YES {
        pentagon_shape.translate(shift_right());
    }

    // Position within quintant
    pentagon_shape.translate(translation);
    pentagon_shape.scale(1.0 / (2.0_f64.powi(resolution)));

    let rotations = quintant_rotations();
    transform_pentagon(&mut pentagon_shape, &rotations[quintant]);

    pentagon_shape
}

/// Get quintant vertices
///
/// # Arguments
///
/// * `quintant` - The quintant index (0-4)
///
/// # Returns
///
/// Triangle vertices for the specified quintant as PentagonShape
pub fn get_quintant_vertices(quintant: usize) -> crate::geometry::pentagon::PentagonShape {
    // Create proper 3-vertex triangle from the triangle vertices
    let triangle_verts = triangle().get_vertices();
    let triangle_3_verts = [triangle_verts[0], triangle_verts[1], triangle_verts[2]];

    let mut pentagon_shape =
        crate::geometry::pentagon::PentagonShape::new_triangle(triangle_3_verts);
    let rotations = quintant_rotations();
    transform_pentagon(&mut pentagon_shape, &rotations[quintant]);
    pentagon_shape
}

/// Get face vertices with correct winding order
///
/// # Returns
///
/// Pentagon shape representing the face vertices
pub fn get_face_vertices() -> PentagonShape {
    let mut vertices = Vec::new();
    let v_vertex = v();
    let rotations = quintant_rotations();

    for rotation in &rotations {
        // Transform v vertex by rotation matrix
        let transformed_x = rotation.m00 * v_vertex.x() + rotation.m01 * v_vertex.y();
        let transformed_y = rotation.m10 * v_vertex.x() + rotation.m11 * v_vertex.y();
        vertices.push(Face::new(transformed_x, transformed_y));
    }

    // Need to reverse to obtain correct winding order
    vertices.reverse();

    // Convert Vec to array for PentagonShape::new
    let pentagon_vertices: [Face; 5] = [
        vertices[0],
        vertices[1],
        vertices[2],
        vertices[3],
        vertices[4],
    ];
    PentagonShape::new(pentagon_vertices)
}

/// Get quintant from polar coordinates
///
/// # Arguments
///
/// * `polar` - Polar coordinates [rho, gamma]
///
/// # Returns  
///
/// The quintant index (0-4)
pub fn get_quintant_polar(polar: Polar) -> usize {
    let gamma = polar.gamma().0; // Extract f64 from Radians
    ((gamma / (TWO_PI_OVER_5).0).round() as i32 + 5) as usize % 5
}
