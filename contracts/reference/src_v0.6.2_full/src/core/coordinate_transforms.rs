// A5
// SPDX-License-Identifier: Apache-2.0
// Copyright (c) A5 contributors

use crate::coordinate_systems::{
    Barycentric, Cartesian, Degrees, Face, FaceTriangle, LonLat, Polar, Radians, Spherical, IJ,
};
use crate::core::pentagon::{basis, basis_inverse};
use crate::projections::authalic::AuthalicProjection;

/// Convert degrees to radians
pub fn deg_to_rad(deg: Degrees) -> Radians {
    Radians::new_unchecked(deg.get() * (std::f64::consts::PI / 180.0))
}

/// Convert radians to degrees  
pub fn rad_to_deg(rad: Radians) -> Degrees {
    Degrees::new_unchecked(rad.get() * (180.0 / std::f64::consts::PI))
}

/// Convert face coordinates to polar coordinates
pub fn to_polar(face: Face) -> Polar {
    let x = face.x();
    let y = face.y();
    let rho = (x * x + y * y).sqrt(); // Radial distance from face center
    let gamma = Radians::new_unchecked(y.atan2(x)); // Azimuthal angle
    Polar::new(rho, gamma)
}

/// Convert polar coordinates to face coordinates
pub fn to_face(polar: Polar) -> Face {
    let rho = polar.rho();
    let gamma = polar.gamma().get();
    let x = rho * gamma.cos();
    let y = rho * gamma.sin();
    Face::new(x, y)
}

/// Convert face coordinates to barycentric coordinates
pub fn face_to_barycentric(p: Face, triangle: FaceTriangle) -> Barycentric {
    let p1 = triangle.a;
    let p2 = triangle.b;
    let p3 = triangle.c;

    let d31 = [p1.x() - p3.x(), p1.y() - p3.y()];
    let d23 = [p3.x() - p2.x(), p3.y() - p2.y()];
    let d3p = [p.x() - p3.x(), p.y() - p3.y()];

    let det = d23[0] * d31[1] - d23[1] * d31[0];
    let b0 = (d23[0] * d3p[1] - d23[1] * d3p[0]) / det;
    let b1 = (d31[0] * d3p[1] - d31[1] * d3p[0]) / det;
    let b2 = 1.0 - (b0 + b1);

    Barycentric::new(b0, b1, b2)
}

/// Convert barycentric coordinates to face coordinates
pub fn barycentric_to_face(bary: Barycentric, triangle: FaceTriangle) -> Face {
    let p1 = triangle.a;
    let p2 = triangle.b;
    let p3 = triangle.c;

    let x = bary.u * p1.x() + bary.v * p2.x() + bary.w * p3.x();
    let y = bary.u * p1.y() + bary.v * p2.y() + bary.w * p3.y();

    Face::new(x, y)
}

/// Convert cartesian coordinates to spherical coordinates
pub fn to_spherical(cart: Cartesian) -> Spherical {
    let x = cart.x();
    let y = cart.y();
    let z = cart.z();

    let theta = Radians::new_unchecked(y.atan2(x));
    let r = (x * x + y * y + z * z).sqrt();
    let phi = Radians::new_unchecked((z / r).acos());

    Spherical::new(theta, phi)
}

/// Convert spherical coordinates to cartesian coordinates
pub fn to_cartesian(spherical: Spherical) -> Cartesian {
    let theta = spherical.theta().get();
    let phi = spherical.phi().get();

    let sin_phi = phi.sin();
    let x = sin_phi * theta.cos();
    let y = sin_phi * theta.sin();
    let z = phi.cos();

    Cartesian::new(x, y, z)
}

/// Longitude offset for the spherical coordinate system
/// This is the angle between the Greenwich meridian and vector between the centers
/// of the first two origins (dodecahedron face centers)
const LONGITUDE_OFFSET: f64 = 93.0;

/// Contour type alias for a sequence of longitude/latitude points
pub type Contour = Vec<LonLat>;

/// Convert face coordinates to IJ coordinates using BASIS_INVERSE matrix
pub fn face_to_ij(face: Face) -> IJ {
    let basis_inverse_mat = basis_inverse();
    let x = face.x();
    let y = face.y();

    let u = basis_inverse_mat.m00 * x + basis_inverse_mat.m01 * y;
    let v = basis_inverse_mat.m10 * x + basis_inverse_mat.m11 * y;

    IJ::new(u, v)
}

/// Convert IJ coordinates to face coordinates using BASIS matrix
pub fn ij_to_face(ij: IJ) -> Face {
    let basis_mat = basis();
    let u = ij.x();
    let v = ij.y();

    let x = basis_mat.m00 * u + basis_mat.m01 * v;
    let y = basis_mat.m10 * u + basis_mat.m11 * v;

    Face::new(x, y)
}

/// Convert longitude/latitude to spherical coordinates
pub fn from_lon_lat(lonlat: LonLat) -> Spherical {
    let longitude = lonlat.longitude();
    let latitude = lonlat.latitude();

    let theta = deg_to_rad(Degrees::new_unchecked(longitude + LONGITUDE_OFFSET));

    let geodetic_lat = deg_to_rad(Degrees::new_unchecked(latitude));
    let authalic = AuthalicProjection;
    let authalic_lat = authalic.forward(geodetic_lat);
    let phi = Radians::new_unchecked(std::f64::consts::FRAC_PI_2 - authalic_lat.get());

    Spherical::new(theta, phi)
}

/// Convert spherical coordinates to longitude/latitude
pub fn to_lon_lat(spherical: Spherical) -> LonLat {
    let theta = spherical.theta();
    let phi = spherical.phi();

    let longitude = rad_to_deg(theta);
    let longitude = Degrees::new_unchecked(longitude.get() - LONGITUDE_OFFSET);

    let authalic_lat = Radians::new_unchecked(std::f64::consts::FRAC_PI_2 - phi.get());
    let authalic = AuthalicProjection;
    let geodetic_lat = authalic.inverse(authalic_lat);
    let latitude = rad_to_deg(geodetic_lat);

    LonLat::new(longitude.get(), latitude.get())
}

/// Normalizes longitude values in a contour to handle antimeridian crossing
pub fn normalize_longitudes(contour: Contour) -> Contour {
    if contour.is_empty() {
        return contour;
    }

    // Calculate center in Cartesian space to avoid poles & antimeridian crossing issues
    let points: Vec<Cartesian> = contour
        .iter()
        .map(|&lonlat| to_cartesian(from_lon_lat(lonlat)))
        .collect();

    let mut center = Cartesian::new(0.0, 0.0, 0.0);
    for point in &points {
        center = Cartesian::new(
            center.x() + point.x(),
            center.y() + point.y(),
            center.z() + point.z(),
        );
    }

    // Normalize center
    let length = (center.x().powi(2) + center.y().powi(2) + center.z().powi(2)).sqrt();
    if length > 0.0 {
        center = Cartesian::new(
            center.x() / length,
            center.y() / length,
            center.z() / length,
        );
    }

    let center_spherical = to_spherical(center);
    let center_lonlat = to_lon_lat(center_spherical);
    let mut center_lon = center_lonlat.longitude();
    let center_lat = center_lonlat.latitude();

    // Near poles, use first point's longitude
    if !(-89.99..=89.99).contains(&center_lat) {
        center_lon = contour[0].longitude();
    }

    // Normalize center longitude to be in the range -180 to 180
    center_lon = ((center_lon + 180.0) % 360.0 + 360.0) % 360.0 - 180.0;

    // Normalize each point relative to center
    contour
        .into_iter()
        .map(|lonlat| {
            let mut longitude = lonlat.longitude();
            let latitude = lonlat.latitude();

            // Adjust longitude to be closer to center
            while longitude - center_lon > 180.0 {
                longitude -= 360.0;
            }
            while longitude - center_lon < -180.0 {
                longitude += 360.0;
            }

            LonLat::new(longitude, latitude)
        })
        .collect()
}
