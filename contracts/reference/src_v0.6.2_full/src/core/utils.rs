// A5
// SPDX-License-Identifier: Apache-2.0
// Copyright (c) A5 contributors

use crate::coordinate_systems::{Radians, Spherical};
use crate::core::hilbert::Orientation;

/// Origin identifier type (0-11)
pub type OriginId = u8;

/// Quaternion type - 4-element array [x, y, z, w]
pub type Quat = [f64; 4];

/// Origin represents one pentagon face of the dodecahedron
#[derive(Debug, Clone, PartialEq)]
pub struct Origin {
    /// Origin identifier (0-11)
    pub id: OriginId,
    /// Axis in spherical coordinates
    pub axis: Spherical,
    /// Quaternion for rotation
    pub quat: Quat,
    /// Inverse quaternion for reverse rotation
    pub inverse_quat: Quat,
    /// Angle in radians
    pub angle: Radians,
    /// Orientation array for Hilbert curve
    pub orientation: Vec<Orientation>,
    /// First quintant index
    pub first_quintant: usize,
}

/// A5 Cell represents a position in the A5 hierarchical indexing system
#[derive(Debug, Clone, PartialEq)]
pub struct A5Cell {
    /// Origin ID representing one of pentagon face of the dodecahedron
    pub origin_id: OriginId,
    /// Index (0-4) of triangular segment within pentagonal dodecahedron face
    pub segment: usize,
    /// Position along Hilbert curve within triangular segment
    pub s: u64,
    /// Resolution of the cell
    pub resolution: i32,
}

impl A5Cell {
    /// Get the origin for this cell
    pub fn origin(&self) -> &Origin {
        &crate::core::origin::get_origins()[self.origin_id as usize]
    }
}
