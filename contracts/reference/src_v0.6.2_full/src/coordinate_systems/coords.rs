// A5
// SPDX-License-Identifier: Apache-2.0
// Copyright (c) A5 contributors

use super::{vec2::Vec2, vec3::Vec3};

// 2D coordinate systems

/// 2D cartesian coordinate system with origin at the center of
/// a dodecahedron face
#[derive(Debug, PartialEq, Copy, Clone)]
pub struct Face(pub Vec2);

impl Face {
    pub fn new(x: f64, y: f64) -> Self {
        Face(Vec2::new(x, y))
    }

    pub fn x(&self) -> f64 {
        self.0.x
    }

    pub fn y(&self) -> f64 {
        self.0.y
    }
}

impl From<[f64; 2]> for Face {
    fn from(arr: [f64; 2]) -> Self {
        Face::new(arr[0], arr[1])
    }
}

impl From<Face> for [f64; 2] {
    fn from(face: Face) -> Self {
        [face.x(), face.y()]
    }
}

/// 2D planar coordinate system defined by the eigenvectors of
/// the lattice tiling
#[derive(Debug, PartialEq, Copy, Clone)]
pub struct IJ(pub Vec2);

impl IJ {
    pub fn new(x: f64, y: f64) -> Self {
        IJ(Vec2::new(x, y))
    }

    pub fn x(&self) -> f64 {
        self.0.x
    }

    pub fn y(&self) -> f64 {
        self.0.y
    }
}

/// 2D planar coordinate system formed by the transformation K -> I + J
#[derive(Debug, PartialEq, Copy, Clone)]
pub struct KJ(pub Vec2);

impl KJ {
    pub fn new(x: f64, y: f64) -> Self {
        KJ(Vec2::new(x, y))
    }

    pub fn x(&self) -> f64 {
        self.0.x
    }

    pub fn y(&self) -> f64 {
        self.0.y
    }
}

// 3D coordinate systems

/// 3D cartesian system centered on unit sphere/dodecahedron
#[derive(Debug, PartialEq, Copy, Clone)]
pub struct Cartesian(pub Vec3);

impl Cartesian {
    pub fn new(x: f64, y: f64, z: f64) -> Self {
        Cartesian(Vec3::new(x, y, z))
    }

    pub fn x(&self) -> f64 {
        self.0.x
    }

    pub fn y(&self) -> f64 {
        self.0.y
    }

    pub fn z(&self) -> f64 {
        self.0.z
    }
}

impl From<[f64; 3]> for Cartesian {
    fn from(arr: [f64; 3]) -> Self {
        Cartesian::new(arr[0], arr[1], arr[2])
    }
}

impl From<Cartesian> for [f64; 3] {
    fn from(cart: Cartesian) -> Self {
        [cart.x(), cart.y(), cart.z()]
    }
}

// Barycentric coordinates and triangle types

/// Barycentric coordinates for a triangle (sum to 1)
#[derive(Debug, PartialEq, Copy, Clone)]
pub struct Barycentric {
    pub u: f64,
    pub v: f64,
    pub w: f64,
}

impl Barycentric {
    pub fn new(u: f64, v: f64, w: f64) -> Self {
        Self { u, v, w }
    }

    /// Check if barycentric coordinates are valid (sum to 1)
    pub fn is_valid(&self) -> bool {
        (self.u + self.v + self.w - 1.0).abs() < f64::EPSILON
    }

    /// Check if point is inside triangle (all coordinates non-negative)
    pub fn is_inside_triangle(&self) -> bool {
        self.u >= 0.0 && self.v >= 0.0 && self.w >= 0.0
    }
}

impl From<[f64; 3]> for Barycentric {
    fn from(arr: [f64; 3]) -> Self {
        Barycentric::new(arr[0], arr[1], arr[2])
    }
}

impl From<Barycentric> for [f64; 3] {
    fn from(bary: Barycentric) -> Self {
        [bary.u, bary.v, bary.w]
    }
}

/// Triangle defined by three face coordinates
#[derive(Debug, PartialEq, Copy, Clone)]
pub struct FaceTriangle {
    pub a: Face,
    pub b: Face,
    pub c: Face,
}

impl FaceTriangle {
    pub fn new(a: Face, b: Face, c: Face) -> Self {
        Self { a, b, c }
    }
}

impl From<[Face; 3]> for FaceTriangle {
    fn from(arr: [Face; 3]) -> Self {
        FaceTriangle::new(arr[0], arr[1], arr[2])
    }
}

impl From<[[f64; 2]; 3]> for FaceTriangle {
    fn from(arr: [[f64; 2]; 3]) -> Self {
        FaceTriangle::new(Face::from(arr[0]), Face::from(arr[1]), Face::from(arr[2]))
    }
}

/// Triangle defined by three cartesian coordinates
#[derive(Debug, PartialEq, Copy, Clone)]
pub struct SphericalTriangle {
    pub a: Cartesian,
    pub b: Cartesian,
    pub c: Cartesian,
}

impl SphericalTriangle {
    pub fn new(a: Cartesian, b: Cartesian, c: Cartesian) -> Self {
        Self { a, b, c }
    }
}

impl From<[Cartesian; 3]> for SphericalTriangle {
    fn from(arr: [Cartesian; 3]) -> Self {
        SphericalTriangle::new(arr[0], arr[1], arr[2])
    }
}
