// A5
// SPDX-License-Identifier: Apache-2.0
// Copyright (c) A5 contributors

/// 3D floating-point vector.
#[derive(Debug, Clone, Copy, PartialEq)]
pub struct Vec3 {
    pub x: f64,
    pub y: f64,
    pub z: f64,
}

impl Vec3 {
    pub const fn new(x: f64, y: f64, z: f64) -> Self {
        Self { x, y, z }
    }
}
