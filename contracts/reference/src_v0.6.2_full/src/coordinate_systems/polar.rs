// A5
// SPDX-License-Identifier: Apache-2.0
// Copyright (c) A5 contributors

use super::base::Radians;
use super::spherical::Spherical;

/// 2D polar coordinate system with origin at the center of
/// a dodecahedron face
#[derive(Debug, PartialEq, Copy, Clone)]
pub struct Polar {
    pub rho: f64,
    pub gamma: Radians,
}

impl Polar {
    /// Create new polar coordinates
    ///
    /// where
    ///   - rho: radial distance from face center
    ///   - gamma: azimuthal angle
    pub const fn new(rho: f64, gamma: Radians) -> Self {
        Self { rho, gamma }
    }

    /// Get rho (radial distance from face center)
    pub const fn rho(&self) -> f64 {
        self.rho
    }

    /// Get gamma (azimuthal angle) in radians
    pub const fn gamma(&self) -> Radians {
        self.gamma
    }

    /// Project polar coordinates to spherical coordinates
    /// using gnomonic projection.
    pub fn project_gnomonic(&self) -> Spherical {
        let gamma = self.gamma;
        let rho = self.rho;
        Spherical::new(gamma, Radians::new_unchecked(rho.atan()))
    }
}
