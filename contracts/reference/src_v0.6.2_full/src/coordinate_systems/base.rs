// A5
// SPDX-License-Identifier: Apache-2.0
// Copyright (c) A5 contributors

//! Base types for coordinate systems.
//!
//! This module provides fundamental angle types ([`Degrees`] and [`Radians`])
//! used throughout the coordinate system implementations.

/// Angle measurement in degrees.
///
/// This type provides safe handling of degree values with appropriate
/// normalization for longitude and latitude coordinates.
#[derive(Debug, PartialEq, Copy, Clone, Default)]
pub struct Degrees(pub f64);

impl Degrees {
    pub const fn new_unchecked(value: f64) -> Self {
        Degrees(value)
    }

    /// Create new Degrees without any normalization
    pub fn new(value: f64) -> Self {
        Degrees(value)
    }

    /// Get the raw value in degrees
    pub const fn get(&self) -> f64 {
        self.0
    }

    /// Convert to radians
    pub fn to_radians(self) -> Radians {
        Radians::new_unchecked(self.0.to_radians())
    }
}

impl From<f64> for Degrees {
    fn from(value: f64) -> Self {
        Self::new(value)
    }
}

impl From<Degrees> for f64 {
    fn from(degrees: Degrees) -> Self {
        degrees.get()
    }
}

/// Angle measurement in radians.
///
/// This type provides safe handling of radian values commonly used
/// in mathematical calculations and coordinate transformations.
#[derive(Debug, PartialEq, Copy, Clone, Default)]
pub struct Radians(pub f64);

impl Radians {
    pub const fn new_unchecked(value: f64) -> Self {
        Radians(value)
    }

    /// Create new Radians with normalization to [0, 2π] range
    pub fn new(value: f64) -> Self {
        use std::f64::consts::TAU; // 2π
        let normalized = value % TAU;
        Radians(if normalized < 0.0 {
            normalized + TAU
        } else {
            normalized
        })
    }

    /// Get the raw value in radians
    pub const fn get(&self) -> f64 {
        self.0
    }

    /// Convert to degrees
    pub fn to_degrees(self) -> Degrees {
        Degrees::new_unchecked(self.0.to_degrees())
    }
}

impl From<f64> for Radians {
    fn from(value: f64) -> Self {
        Self::new(value)
    }
}

impl From<Radians> for f64 {
    fn from(radians: Radians) -> Self {
        radians.get()
    }
}
