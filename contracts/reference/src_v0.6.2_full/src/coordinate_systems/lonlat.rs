// A5
// SPDX-License-Identifier: Apache-2.0
// Copyright (c) A5 contributors

//! Geographic coordinate system using longitude and latitude.

use super::base::Degrees;

/// Geographic coordinates using longitude and latitude in degrees.
///
/// Longitude values are normalized to [-180, 180] range to handle
/// antimeridian-spanning coordinates. Latitude values are clamped
/// to [-90, 90] range.
#[derive(Clone, Copy, Default, Debug, PartialEq)]
pub struct LonLat {
    /// Longitude, in degrees.
    pub longitude: Degrees,
    /// Latitude, in degrees.
    pub latitude: Degrees,
}

impl LonLat {
    /// Create new longitude/latitude coordinates with validation
    pub fn new(longitude: f64, latitude: f64) -> Self {
        Self {
            longitude: Degrees::new(longitude),
            latitude: Degrees::new(latitude),
        }
    }

    /// Create new longitude/latitude coordinates without validation
    pub const fn new_unchecked(longitude: Degrees, latitude: Degrees) -> Self {
        Self {
            longitude,
            latitude,
        }
    }

    /// Get longitude in degrees
    pub const fn longitude(&self) -> f64 {
        self.longitude.get()
    }

    /// Get latitude in degrees
    pub const fn latitude(&self) -> f64 {
        self.latitude.get()
    }

    /// Create LonLat from degrees with validation
    pub fn from_degrees(longitude: f64, latitude: f64) -> Self {
        Self::new(longitude, latitude)
    }

    /// Convert to tuple of (longitude, latitude) in degrees
    pub const fn to_degrees(&self) -> (f64, f64) {
        (self.longitude.get(), self.latitude.get())
    }
}

impl From<(f64, f64)> for LonLat {
    fn from((longitude, latitude): (f64, f64)) -> Self {
        Self::new(longitude, latitude)
    }
}

impl From<LonLat> for (f64, f64) {
    fn from(lonlat: LonLat) -> Self {
        lonlat.to_degrees()
    }
}
