// A5
// SPDX-License-Identifier: Apache-2.0
// Copyright (c) A5 contributors

/// 2D floating-point vector.
#[derive(Debug, Clone, Copy, PartialEq)]
pub struct Vec2 {
    pub x: f64,
    pub y: f64,
}

impl Eq for Vec2 {}

impl Vec2 {
    pub const fn new(x: f64, y: f64) -> Self {
        Self { x, y }
    }
}
