//! Coordinate systems used by A5 internally.

mod base;
pub use base::{Degrees, Radians};

mod polar;
pub use polar::Polar;

mod spherical;
pub use spherical::Spherical;

mod lonlat;
pub use lonlat::LonLat;

mod coords;
pub use coords::{Barycentric, Cartesian, Face, FaceTriangle, SphericalTriangle, IJ, KJ};

pub mod vec2;
pub mod vec3;
