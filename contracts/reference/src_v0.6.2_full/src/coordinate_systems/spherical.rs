// A5
// SPDX-License-Identifier: Apache-2.0
// Copyright (c) A5 contributors

use super::base::Radians;
use super::polar::Polar;

/// 3D spherical coordinate system centered on unit sphere/dodecahedron
#[derive(Debug, PartialEq, Copy, Clone, Default)]
pub struct Spherical {
    pub theta: Radians,
    pub phi: Radians,
}

impl Spherical {
    /// Create new spherical coordinates
    pub const fn new(theta: Radians, phi: Radians) -> Self {
        Self { theta, phi }
    }

    /// Get theta (azimuthal angle) in radians
    pub const fn theta(&self) -> Radians {
        self.theta
    }

    /// Get phi (polar angle) in radians
    pub const fn phi(&self) -> Radians {
        self.phi
    }

    /// Unproject spherical coordinates to polar
    /// coordinates using gnomonic projection.
    pub fn unproject_gnomonic(self) -> Polar {
        let theta = self.theta;
        let phi = self.phi;
        Polar::new(phi.get().tan(), theta)
    }
}
