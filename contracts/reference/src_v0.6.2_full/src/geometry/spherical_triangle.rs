// A5
// SPDX-License-Identifier: Apache-2.0
// Copyright (c) A5 contributors

use crate::coordinate_systems::{Cartesian, Radians};
use crate::geometry::{SphericalPolygon, SphericalPolygonShape};

#[derive(Debug)]
pub struct SphericalTriangleShape {
    inner: SphericalPolygonShape,
}

impl SphericalTriangleShape {
    pub fn new(vertices: SphericalPolygon) -> Result<Self, String> {
        if vertices.len() != 3 {
            return Err("SphericalTriangleShape requires exactly 3 vertices".to_string());
        }
        Ok(Self {
            inner: SphericalPolygonShape::new(vertices),
        })
    }

    /// Returns a closed boundary of the triangle, with n_segments points per edge
    pub fn get_boundary(&self, n_segments: usize, closed_ring: bool) -> SphericalPolygon {
        self.inner.get_boundary(n_segments, closed_ring)
    }

    /// Interpolates along boundary of triangle. Pass t = 1.5 to get the midpoint between 2nd and 3rd vertices
    pub fn slerp(&self, t: f64) -> Cartesian {
        self.inner.slerp(t)
    }

    /// Returns the vertex given by index t, along with the vectors:
    /// - VA: Vector from vertex to point A
    /// - VB: Vector from vertex to point B
    pub fn get_transformed_vertices(&self, t: f64) -> (Cartesian, Cartesian, Cartesian) {
        self.inner.get_transformed_vertices(t)
    }

    pub fn contains_point(&self, point: Cartesian) -> f64 {
        self.inner.contains_point(point)
    }

    /// Calculate the area of the spherical triangle
    pub fn get_area(&mut self) -> Radians {
        self.inner.get_area()
    }
}
