// A5
// SPDX-License-Identifier: Apache-2.0
// Copyright (c) A5 contributors

pub mod pentagon;
pub use pentagon::*;

pub mod spherical_polygon;
pub use spherical_polygon::*;

pub mod spherical_triangle;
pub use spherical_triangle::*;
