// A5
// SPDX-License-Identifier: Apache-2.0
// Copyright (c) A5 contributors

use crate::coordinate_systems::{Cartesian, Radians};
use crate::utils::vector::{slerp, triple_product};

/// Use Cartesian system for all calculations for greater accuracy
/// Using [x, y, z] gives equal precision in all directions, unlike spherical coordinates
pub type SphericalPolygon = Vec<Cartesian>;

#[derive(Debug)]
pub struct SphericalPolygonShape {
    vertices: SphericalPolygon,
    area: Option<Radians>,
}

impl SphericalPolygonShape {
    pub fn new(vertices: SphericalPolygon) -> Self {
        // Note: TypeScript version has this.isWindingCorrect() commented out
        Self {
            vertices,
            area: None,
        }
    }

    /// Returns a closed boundary of the polygon, with n_segments points per edge
    pub fn get_boundary(&self, n_segments: usize, closed_ring: bool) -> SphericalPolygon {
        let mut points = Vec::new();
        let n = self.vertices.len();

        for s in 0..(n * n_segments) {
            let t = s as f64 / n_segments as f64;
            points.push(self.slerp(t));
        }

        if closed_ring && !points.is_empty() {
            points.push(points[0]);
        }

        points
    }

    /// Interpolates along boundary of polygon. Pass t = 1.5 to get the midpoint between 2nd and 3rd vertices
    pub fn slerp(&self, t: f64) -> Cartesian {
        let n = self.vertices.len();
        let f = t % 1.0;
        let i = (t % n as f64) as usize;
        let j = (i + 1) % n;
        slerp(self.vertices[i], self.vertices[j], f)
    }

    /// Returns the vertex given by index t, along with the vectors:
    /// - VA: Vector from vertex to point A
    /// - VB: Vector from vertex to point B
    pub fn get_transformed_vertices(&self, t: f64) -> (Cartesian, Cartesian, Cartesian) {
        let n = self.vertices.len();
        let i = (t % n as f64) as usize;
        let j = (i + 1) % n;
        let k = (i + n - 1) % n;

        // Points A & B (vertex before and after)
        let v = self.vertices[i];
        let va = subtract(self.vertices[j], v);
        let vb = subtract(self.vertices[k], v);
        (v, va, vb)
    }

    pub fn contains_point(&self, point: Cartesian) -> f64 {
        // Adaption of algorithm from:
        // 'Locating a point on a spherical surface relative to a spherical polygon'
        // Using only the condition of 'necessary strike'
        let n = self.vertices.len();
        let mut theta_delta_min = f64::INFINITY;

        for i in 0..n {
            // Transform point and neighboring vertices into coordinate system centered on vertex
            let (v, va, vb) = self.get_transformed_vertices(i as f64);
            let vp = subtract(point, v);

            // Normalize to obtain unit direction vectors
            let vp = normalize(vp);
            let va = normalize(va);
            let vb = normalize(vb);

            // Cross products will point away from the center of the sphere when
            // point P is within arc formed by VA and VB
            let cross_ap = cross(va, vp);
            let cross_pb = cross(vp, vb);

            // Dot product will be positive when point P is within arc formed by VA and VB
            // The magnitude of the dot product is the sine of the angle between the two vectors
            // which is the same as the angle for small angles.
            let sin_ap = dot(v, cross_ap);
            let sin_pb = dot(v, cross_pb);

            // By returning the minimum value we find the arc where the point is closest to being outside
            theta_delta_min = theta_delta_min.min(sin_ap).min(sin_pb);
        }

        // If point is inside all arcs, will return a position value
        // If point is on edge of arc, will return 0
        // If point is outside all arcs, will return -1, the further away from 0, the further away from the arc
        theta_delta_min
    }

    /// Calculate the area of a spherical triangle given three vertices
    fn get_triangle_area(&self, v1: Cartesian, v2: Cartesian, v3: Cartesian) -> Radians {
        // Calculate midpoints
        let mid_a = normalize(lerp(v2, v3, 0.5));
        let mid_b = normalize(lerp(v3, v1, 0.5));
        let mid_c = normalize(lerp(v1, v2, 0.5));

        // Calculate area using asin of dot product, clamped to valid range
        let s = triple_product(mid_a, mid_b, mid_c);
        let clamped = s.clamp(-1.0, 1.0);

        // sin(x) = x for x < 1e-8
        let area = if clamped.abs() < 1e-8 {
            2.0 * clamped
        } else {
            clamped.asin() * 2.0
        };

        Radians::new_unchecked(area)
    }

    /// Calculate the area of the spherical polygon by decomposing it into a fan of triangles
    pub fn get_area(&mut self) -> Radians {
        // Memoize the result since vertices are immutable
        if let Some(area) = self.area {
            return area;
        }

        let area = self.compute_area();
        self.area = Some(area);
        area
    }

    fn compute_area(&self) -> Radians {
        if self.vertices.len() < 3 {
            return Radians::new_unchecked(0.0);
        }

        if self.vertices.len() == 3 {
            return self.get_triangle_area(self.vertices[0], self.vertices[1], self.vertices[2]);
        }

        // Calculate center of polygon
        let mut center = Cartesian::new(0.0, 0.0, 0.0);
        for vertex in &self.vertices {
            center = add(center, *vertex);
        }
        center = normalize(center);

        // Sum fan of triangles around center
        let mut area = 0.0;
        for i in 0..self.vertices.len() {
            let v1 = self.vertices[i];
            let v2 = self.vertices[(i + 1) % self.vertices.len()];
            let tri_area = self.get_triangle_area(center, v1, v2);
            if !tri_area.get().is_nan() {
                area += tri_area.get();
            }
        }

        Radians::new_unchecked(area)
    }

    /// For debugging purposes, check if the winding order is correct
    /// In production, should always be correct
    #[allow(dead_code)]
    fn is_winding_correct(&mut self) -> bool {
        let area = self.get_area();
        area.get() > 0.0
    }
}

// Helper functions for 3D vector operations

/// Compute dot product of two vectors
fn dot(a: Cartesian, b: Cartesian) -> f64 {
    a.x() * b.x() + a.y() * b.y() + a.z() * b.z()
}

/// Compute cross product of two vectors
fn cross(a: Cartesian, b: Cartesian) -> Cartesian {
    Cartesian::new(
        a.y() * b.z() - a.z() * b.y(),
        a.z() * b.x() - a.x() * b.z(),
        a.x() * b.y() - a.y() * b.x(),
    )
}

/// Compute length of a vector
fn length(v: Cartesian) -> f64 {
    (v.x() * v.x() + v.y() * v.y() + v.z() * v.z()).sqrt()
}

/// Normalize a vector
fn normalize(v: Cartesian) -> Cartesian {
    let len = length(v);
    if len == 0.0 {
        return v;
    }
    Cartesian::new(v.x() / len, v.y() / len, v.z() / len)
}

/// Linear interpolation between two vectors
fn lerp(a: Cartesian, b: Cartesian, t: f64) -> Cartesian {
    Cartesian::new(
        a.x() + t * (b.x() - a.x()),
        a.y() + t * (b.y() - a.y()),
        a.z() + t * (b.z() - a.z()),
    )
}

/// Subtract two vectors
fn subtract(a: Cartesian, b: Cartesian) -> Cartesian {
    Cartesian::new(a.x() - b.x(), a.y() - b.y(), a.z() - b.z())
}

/// Add two vectors
fn add(a: Cartesian, b: Cartesian) -> Cartesian {
    Cartesian::new(a.x() + b.x(), a.y() + b.y(), a.z() + b.z())
}
