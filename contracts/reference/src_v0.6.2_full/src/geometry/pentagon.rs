// A5
// SPDX-License-Identifier: Apache-2.0
// Copyright (c) A5 contributors

use crate::coordinate_systems::Face;

pub type Pentagon = [Face; 5];
pub type Triangle = [Face; 3];

#[derive(Debug, Clone)]
pub struct PentagonShape {
    vertices: Vec<Face>,
}

impl PentagonShape {
    pub fn new(vertices: Pentagon) -> Self {
        let mut pentagon = Self {
            vertices: vertices.to_vec(),
        };
        if !pentagon.is_winding_correct() {
            pentagon.vertices.reverse();
        }
        pentagon
    }

    pub fn new_triangle(vertices: Triangle) -> Self {
        let mut pentagon = Self {
            vertices: vertices.to_vec(),
        };
        if !pentagon.is_winding_correct() {
            pentagon.vertices.reverse();
        }
        pentagon
    }

    fn from_vertices(vertices: Vec<Face>) -> Self {
        let mut pentagon = Self { vertices };
        if !pentagon.is_winding_correct() {
            pentagon.vertices.reverse();
        }
        pentagon
    }

    pub fn get_area(&self) -> f64 {
        let mut signed_area = 0.0;
        let n = self.vertices.len();
        for i in 0..n {
            let j = (i + 1) % n;
            signed_area += (self.vertices[j].x() - self.vertices[i].x())
                * (self.vertices[j].y() + self.vertices[i].y());
        }
        signed_area
    }

    fn is_winding_correct(&self) -> bool {
        self.get_area() >= 0.0
    }

    pub fn get_vertices(&self) -> Pentagon {
        let mut pentagon = [Face::new(0.0, 0.0); 5];
        for (i, vertex) in self.vertices.iter().enumerate().take(5) {
            pentagon[i] = *vertex;
        }
        pentagon
    }

    pub fn get_vertices_vec(&self) -> &Vec<Face> {
        &self.vertices
    }

    pub fn scale(&mut self, scale: f64) -> &mut Self {
        for vertex in &mut self.vertices {
            *vertex = Face::new(vertex.x() * scale, vertex.y() * scale);
        }
        self
    }

    /// Rotates the pentagon 180 degrees (equivalent to negating x & y)
    /// Returns the rotated pentagon
    pub fn rotate180(&mut self) -> &mut Self {
        for vertex in &mut self.vertices {
            *vertex = Face::new(-vertex.x(), -vertex.y());
        }
        self
    }

    /// Reflects the pentagon over the x-axis (equivalent to negating y)
    /// and reverses the winding order to maintain consistent orientation
    /// Returns the reflected pentagon
    pub fn reflect_y(&mut self) -> &mut Self {
        // First reflect all vertices
        for vertex in &mut self.vertices {
            *vertex = Face::new(vertex.x(), -vertex.y());
        }

        // Then reverse the winding order to maintain consistent orientation
        self.vertices.reverse();

        self
    }

    pub fn translate(&mut self, translation: Face) -> &mut Self {
        for vertex in &mut self.vertices {
            *vertex = Face::new(vertex.x() + translation.x(), vertex.y() + translation.y());
        }
        self
    }

    pub fn get_center(&self) -> Face {
        let n = self.vertices.len() as f64;
        let (sum_x, sum_y) = self.vertices.iter().fold((0.0, 0.0), |(sum_x, sum_y), v| {
            (sum_x + v.x() / n, sum_y + v.y() / n)
        });
        Face::new(sum_x, sum_y)
    }

    /// Tests if a point is inside the pentagon by checking if it's on the correct side of all edges.
    /// Assumes consistent winding order (counter-clockwise).
    /// Returns 1 if point is inside, otherwise a negative value proportional to the distance from the point to the edge
    pub fn contains_point(&self, point: Face) -> f64 {
        // TODO later we can likely remove this, but for now it's useful for debugging
        if !self.is_winding_correct() {
            panic!("Pentagon is not counter-clockwise");
        }

        let n = self.vertices.len();
        let mut d_max: f64 = 1.0;
        for i in 0..n {
            let v1 = self.vertices[i];
            let v2 = self.vertices[(i + 1) % n];

            // Calculate the cross product to determine which side of the line the point is on
            // (v1 - v2) × (point - v1)
            let dx = v1.x() - v2.x();
            let dy = v1.y() - v2.y();
            let px = point.x() - v1.x();
            let py = point.y() - v1.y();

            // Cross product: dx * py - dy * px
            // If positive, point is on the wrong side
            // If negative, point is on the correct side
            let cross_product = dx * py - dy * px;
            if cross_product < 0.0 {
                // Only normalize by distance of point to edge as we can assume the edges of the
                // pentagon are all the same length
                let p_length = (px * px + py * py).sqrt();
                d_max = d_max.min(cross_product / p_length);
            }
        }

        d_max
    }

    /// Splits each edge of the pentagon into the specified number of segments
    /// Returns a new PentagonShape with more vertices, or the original PentagonShape if segments <= 1
    pub fn split_edges(&self, segments: usize) -> PentagonShape {
        if segments <= 1 {
            return self.clone();
        }

        let mut new_vertices = Vec::new();
        let n = self.vertices.len();

        for i in 0..n {
            let v1 = self.vertices[i];
            let v2 = self.vertices[(i + 1) % n];

            // Add the current vertex
            new_vertices.push(v1);

            // Add interpolated points along the edge (excluding the endpoints)
            for j in 1..segments {
                let t = j as f64 / segments as f64;
                let interpolated = Face::new(
                    v1.x() + t * (v2.x() - v1.x()),
                    v1.y() + t * (v2.y() - v1.y()),
                );
                new_vertices.push(interpolated);
            }
        }

        PentagonShape::from_vertices(new_vertices)
    }
}
