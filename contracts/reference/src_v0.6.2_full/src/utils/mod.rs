// A5
// SPDX-License-Identifier: Apache-2.0
// Copyright (c) A5 contributors

pub mod vector;
pub use vector::*;
