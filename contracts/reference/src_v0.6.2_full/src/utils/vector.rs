// A5
// SPDX-License-Identifier: Apache-2.0
// Copyright (c) A5 contributors

use crate::coordinate_systems::Cartesian;

/// Returns a difference measure between two vectors, a - b
/// D = sqrt(1 - dot(a,b)) / sqrt(2)
/// D = 1: a and b are perpendicular
/// D = 0: a and b are the same
/// D = NaN: a and b are opposite (shouldn't happen in IVEA as we're using normalized vectors in the same hemisphere)
///
/// D is a measure of the angle between the two vectors. sqrt(2) can be ignored when comparing ratios.
///
/// # Arguments
///
/// * `a` - The first vector
/// * `b` - The second vector
///
/// # Returns
///
/// The difference between the two vectors
pub fn vector_difference(a: Cartesian, b: Cartesian) -> f64 {
    // Original implementation is unstable for small angles as dot(A, B) approaches 1
    // return (1.0 - dot(a, b)).sqrt();

    // dot(A, B) = cos(x) as A and B are normalized
    // Using double angle formula for cos(2x) = 1 - 2sin(x)^2, can rewrite as:
    // 1 - cos(x) = 2 * sin(x/2)^2)
    //            = 2 * sin(x/2)^2
    // ⇒ sqrt(1 - cos(x)) = sqrt(2) * sin(x/2)
    // Angle x/2 can be obtained as the angle between A and the normalized midpoint of A and B
    // ⇒ sin(x/2) = |cross(A, midpointAB)|

    let midpoint_ab = lerp(a, b, 0.5);
    let midpoint_ab = normalize(midpoint_ab);
    let cross_result = cross(a, midpoint_ab);
    let d = length(cross_result);

    // Math.sin(x) = x for x < 1e-8
    if d < 1e-8 {
        // When A and B are close or equal sin(x/2) ≈ x/2, just take the half-distance between A and B
        let ab = subtract(a, b);
        let half_distance = 0.5 * length(ab);
        return half_distance;
    }
    d
}

/// Computes the triple product of three vectors
///
/// # Arguments
///
/// * `a` - The first vector
/// * `b` - The second vector
/// * `c` - The third vector
///
/// # Returns
///
/// The scalar result
pub fn triple_product(a: Cartesian, b: Cartesian, c: Cartesian) -> f64 {
    let cross_bc = cross(b, c);
    dot(a, cross_bc)
}

/// Computes the quadruple product of four vectors
///
/// # Arguments
///
/// * `a` - The first vector
/// * `b` - The second vector
/// * `c` - The third vector
/// * `d` - The fourth vector
///
/// # Returns
///
/// The result vector
pub fn quadruple_product(a: Cartesian, b: Cartesian, c: Cartesian, d: Cartesian) -> Cartesian {
    let cross_cd = cross(c, d);
    let triple_product_acd = dot(a, cross_cd);
    let triple_product_bcd = dot(b, cross_cd);
    let scaled_a = scale(a, triple_product_bcd);
    let scaled_b = scale(b, triple_product_acd);
    subtract(scaled_b, scaled_a)
}

/// Spherical linear interpolation between two vectors
///
/// # Arguments
///
/// * `a` - The first vector
/// * `b` - The second vector
/// * `t` - The interpolation parameter (0 to 1)
///
/// # Returns
///
/// The interpolated vector
pub fn slerp(a: Cartesian, b: Cartesian, t: f64) -> Cartesian {
    let gamma = angle(a, b);
    if gamma < 1e-12 {
        return lerp(a, b, t);
    }
    let weight_a = ((1.0 - t) * gamma).sin() / gamma.sin();
    let weight_b = (t * gamma).sin() / gamma.sin();
    let scaled_a = scale(a, weight_a);
    let scaled_b = scale(b, weight_b);
    add(scaled_a, scaled_b)
}

// Helper functions for 3D vector operations

/// Compute dot product of two vectors
fn dot(a: Cartesian, b: Cartesian) -> f64 {
    a.x() * b.x() + a.y() * b.y() + a.z() * b.z()
}

/// Compute cross product of two vectors
fn cross(a: Cartesian, b: Cartesian) -> Cartesian {
    Cartesian::new(
        a.y() * b.z() - a.z() * b.y(),
        a.z() * b.x() - a.x() * b.z(),
        a.x() * b.y() - a.y() * b.x(),
    )
}

/// Compute length of a vector
pub fn length(v: Cartesian) -> f64 {
    (v.x() * v.x() + v.y() * v.y() + v.z() * v.z()).sqrt()
}

/// Helper alias for the public length function
pub fn vec3_length(v: &Cartesian) -> f64 {
    length(*v)
}

/// Normalize a vector
fn normalize(v: Cartesian) -> Cartesian {
    let len = length(v);
    if len == 0.0 {
        return v;
    }
    Cartesian::new(v.x() / len, v.y() / len, v.z() / len)
}

/// Linear interpolation between two vectors
fn lerp(a: Cartesian, b: Cartesian, t: f64) -> Cartesian {
    Cartesian::new(
        a.x() + t * (b.x() - a.x()),
        a.y() + t * (b.y() - a.y()),
        a.z() + t * (b.z() - a.z()),
    )
}

/// Subtract two vectors
fn subtract(a: Cartesian, b: Cartesian) -> Cartesian {
    Cartesian::new(a.x() - b.x(), a.y() - b.y(), a.z() - b.z())
}

/// Distance between two 3D vectors
pub fn vec3_distance(a: &Cartesian, b: &Cartesian) -> f64 {
    length(subtract(*a, *b))
}

/// Add two vectors
fn add(a: Cartesian, b: Cartesian) -> Cartesian {
    Cartesian::new(a.x() + b.x(), a.y() + b.y(), a.z() + b.z())
}

/// Scale a vector by a scalar
fn scale(v: Cartesian, s: f64) -> Cartesian {
    Cartesian::new(v.x() * s, v.y() * s, v.z() * s)
}

/// Compute angle between two vectors
fn angle(a: Cartesian, b: Cartesian) -> f64 {
    let dot_product = dot(a, b);
    let len_a = length(a);
    let len_b = length(b);
    let cos_angle = dot_product / (len_a * len_b);
    // Clamp to avoid numerical errors
    cos_angle.clamp(-1.0, 1.0).acos()
}
