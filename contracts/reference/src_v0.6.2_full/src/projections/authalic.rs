// A5
// SPDX-License-Identifier: Apache-2.0
// Copyright (c) A5 contributors

use crate::coordinate_systems::Radians;

// Authalic conversion coefficients obtained from: https://arxiv.org/pdf/2212.05818
// See: authalic_constants.py for the derivation of the coefficients
#[allow(clippy::excessive_precision)]
const GEODETIC_TO_AUTHALIC: [f64; 6] = [
    -2.2392098386786394e-03,
    2.1308606513250217e-06,
    -2.5592576864212742e-09,
    3.3701965267802837e-12,
    -4.6675453126112487e-15,
    6.6749287038481596e-18,
];

#[allow(clippy::excessive_precision)]
const AUTHALIC_TO_GEODETIC: [f64; 6] = [
    2.2392089963541657e-03,
    2.8831978048607556e-06,
    5.0862207399726603e-09,
    1.0201812377816100e-11,
    2.1912872306767718e-14,
    4.9284235482523806e-17,
];

// Adaptation of applyCoefficients from DGGAL project: authalic.ec
//
// BSD 3-Clause License
//
// Copyright (c) 2014-2025, Ecere Corporation
//
// Redistribution and use in source and binary forms, with or without
// modification, are permitted provided that the following conditions are met:
//
// 1. Redistributions of source code must retain the above copyright notice, this
//    list of conditions and the following disclaimer.
//
// 2. Redistributions in binary form must reproduce the above copyright notice,
//    this list of conditions and the following disclaimer in the documentation
//    and/or other materials provided with the distribution.
//
// 3. Neither the name of the copyright holder nor the names of its
//    contributors may be used to endorse or promote products derived from
//    this software without specific prior written permission.
//
// THIS SOFTWARE IS PROVIDED BY THE COPYRIGHT HOLDERS AND CONTRIBUTORS "AS IS"
// AND ANY EXPRESS OR IMPLIED WARRANTIES, INCLUDING, BUT NOT LIMITED TO, THE
// IMPLIED WARRANTIES OF MERCHANTABILITY AND FITNESS FOR A PARTICULAR PURPOSE ARE
// DISCLAIMED. IN NO EVENT SHALL THE COPYRIGHT HOLDER OR CONTRIBUTORS BE LIABLE
// FOR ANY DIRECT, INDIRECT, INCIDENTAL, SPECIAL, EXEMPLARY, OR CONSEQUENTIAL
// DAMAGES (INCLUDING, BUT NOT LIMITED TO, PROCUREMENT OF SUBSTITUTE GOODS OR
// SERVICES; LOSS OF USE, DATA, OR PROFITS; OR BUSINESS INTERRUPTION) HOWEVER
// CAUSED AND ON ANY THEORY OF LIABILITY, WHETHER IN CONTRACT, STRICT LIABILITY,
// OR TORT (INCLUDING NEGLIGENCE OR OTHERWISE) ARISING IN ANY WAY OUT OF THE USE
// OF THIS SOFTWARE, EVEN IF ADVISED OF THE POSSIBILITY OF SUCH DAMAGE.

/// Authalic projection implementation that converts between geodetic and authalic latitudes.
pub struct AuthalicProjection;

impl AuthalicProjection {
    /// Applies coefficients using Clenshaw summation algorithm (order 6)
    ///
    /// # Arguments
    ///
    /// * `phi` - Angle in radians
    /// * `c` - Array of coefficients
    ///
    /// # Returns
    ///
    /// Transformed angle in radians
    fn apply_coefficients(&self, phi: Radians, c: &[f64; 6]) -> Radians {
        let sin_phi = phi.get().sin();
        let cos_phi = phi.get().cos();
        let x = 2.0 * (cos_phi - sin_phi) * (cos_phi + sin_phi);

        let u0 = x * c[5] + c[4];
        let u1 = x * u0 + c[3];
        let u0 = x * u1 - u0 + c[2];
        let u1 = x * u0 - u1 + c[1];
        let u0 = x * u1 - u0 + c[0];

        Radians::new_unchecked(phi.get() + 2.0 * sin_phi * cos_phi * u0)
    }

    /// Converts geodetic latitude to authalic latitude
    ///
    /// # Arguments
    ///
    /// * `phi` - Geodetic latitude in radians
    ///
    /// # Returns
    ///
    /// Authalic latitude in radians
    pub fn forward(&self, phi: Radians) -> Radians {
        self.apply_coefficients(phi, &GEODETIC_TO_AUTHALIC)
    }

    /// Converts authalic latitude to geodetic latitude
    ///
    /// # Arguments
    ///
    /// * `phi` - Authalic latitude in radians
    ///
    /// # Returns
    ///
    /// Geodetic latitude in radians
    pub fn inverse(&self, phi: Radians) -> Radians {
        self.apply_coefficients(phi, &AUTHALIC_TO_GEODETIC)
    }
}
