// A5
// SPDX-License-Identifier: Apache-2.0
// Copyright (c) A5 contributors

use crate::coordinate_systems::{Cartesian, Radians, Spherical};
use crate::core::constants::{DISTANCE_TO_EDGE, DISTANCE_TO_VERTEX};
use crate::core::coordinate_transforms::to_cartesian;
use crate::core::origin::get_origins;
use std::f64::consts::PI;

/**
 * The Coordinate Reference System (CRS) of the dodecahedron is a set of 62 vertices:
 * - 12 face centers
 * - 20 vertices
 * - 30 edge midpoints
 *
 * The vertices are used as a rigid frame of reference for the dodecahedron in the
 * dodecahedron projection. By constructing them once, we can avoid recalculating
 * and be sure of their correctness.
 */
pub struct CRS {
    vertices: Vec<Cartesian>,
    invocations: usize,
}

impl CRS {
    pub fn new() -> Result<Self, String> {
        let mut crs = CRS {
            vertices: Vec::new(),
            invocations: 0,
        };

        crs.add_face_centers();
        crs.add_vertices();
        crs.add_midpoints();

        if crs.vertices.len() != 62 {
            return Err(format!(
                "Failed to construct CRS: vertices length is {} instead of 62",
                crs.vertices.len()
            ));
        }

        Ok(crs)
    }

    pub fn get_vertex(&mut self, point: Cartesian) -> Result<Cartesian, String> {
        self.invocations += 1;
        if self.invocations == 10000 {
            eprintln!("Warning: Too many CRS invocations, results should be cached");
        }

        for vertex in &self.vertices {
            if vec3_distance(&point, vertex) < 1e-5 {
                return Ok(*vertex);
            }
        }

        Err("Failed to find vertex in CRS".to_string())
    }

    fn add_face_centers(&mut self) {
        let origins = get_origins();
        for origin in origins {
            let cartesian = to_cartesian(origin.axis);
            self.add(cartesian);
        }
    }

    fn add_vertices(&mut self) {
        let phi_vertex = DISTANCE_TO_VERTEX.atan();

        let origins = get_origins();
        for origin in origins {
            for i in 0..5 {
                let theta_vertex = (2 * i + 1) as f64 * PI / 5.0;
                let spherical = Spherical::new(
                    Radians::new_unchecked(theta_vertex + origin.angle.get()),
                    Radians::new_unchecked(phi_vertex),
                );
                let mut vertex = to_cartesian(spherical);
                vertex = transform_quat(vertex, origin.quat);
                self.add(vertex);
            }
        }
    }

    fn add_midpoints(&mut self) {
        let phi_midpoint = DISTANCE_TO_EDGE.atan();

        let origins = get_origins();
        for origin in origins {
            for i in 0..5 {
                let theta_midpoint = (2 * i) as f64 * PI / 5.0;
                let spherical = Spherical::new(
                    Radians::new_unchecked(theta_midpoint + origin.angle.get()),
                    Radians::new_unchecked(phi_midpoint),
                );
                let mut midpoint = to_cartesian(spherical);
                midpoint = transform_quat(midpoint, origin.quat);
                self.add(midpoint);
            }
        }
    }

    fn add(&mut self, new_vertex: Cartesian) -> bool {
        let normalized = normalize(new_vertex);

        // Check if vertex already exists
        for existing_vertex in &self.vertices {
            if vec3_distance(&normalized, existing_vertex) < 1e-5 {
                return false;
            }
        }

        self.vertices.push(normalized);
        true
    }
}

impl Default for CRS {
    fn default() -> Self {
        Self::new().expect("Failed to create CRS")
    }
}

// Helper functions for vector operations

/// Compute distance between two 3D vectors
fn vec3_distance(a: &Cartesian, b: &Cartesian) -> f64 {
    let dx = a.x() - b.x();
    let dy = a.y() - b.y();
    let dz = a.z() - b.z();
    (dx * dx + dy * dy + dz * dz).sqrt()
}

/// Normalize a vector
fn normalize(v: Cartesian) -> Cartesian {
    let length = (v.x() * v.x() + v.y() * v.y() + v.z() * v.z()).sqrt();
    if length == 0.0 {
        return v;
    }
    Cartesian::new(v.x() / length, v.y() / length, v.z() / length)
}

/// Transform a vector by a quaternion
fn transform_quat(v: Cartesian, q: [f64; 4]) -> Cartesian {
    let [qx, qy, qz, qw] = q;

    // First, convert vector to quaternion (w=0)
    let vx = v.x();
    let vy = v.y();
    let vz = v.z();

    // Compute q * v * q^(-1)
    // q^(-1) = conjugate(q) / |q|^2, but since q is unit quaternion, q^(-1) = conjugate(q)
    let qconj_x = -qx;
    let qconj_y = -qy;
    let qconj_z = -qz;
    let qconj_w = qw;

    // First multiplication: q * v
    let t1_x = qw * vx + qy * vz - qz * vy;
    let t1_y = qw * vy + qz * vx - qx * vz;
    let t1_z = qw * vz + qx * vy - qy * vx;
    let t1_w = -qx * vx - qy * vy - qz * vz;

    // Second multiplication: (q * v) * q^(-1)
    let result_x = t1_w * qconj_x + t1_x * qconj_w + t1_y * qconj_z - t1_z * qconj_y;
    let result_y = t1_w * qconj_y + t1_y * qconj_w + t1_z * qconj_x - t1_x * qconj_z;
    let result_z = t1_w * qconj_z + t1_z * qconj_w + t1_x * qconj_y - t1_y * qconj_x;

    Cartesian::new(result_x, result_y, result_z)
}
