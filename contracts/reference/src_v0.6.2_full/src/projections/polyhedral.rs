// A5
// SPDX-License-Identifier: Apache-2.0
// Copyright (c) A5 contributors

// IVEA (Icosahedral Vertex Equal Area) projection implementation
// Adaptation of icoVertexGreatCircle.ec from DGGAL project
// BSD 3-Clause License
//
// Copyright (c) 2014-2025, Ecere Corporation
//
// Redistribution and use in source and binary forms, with or without
// modification, are permitted provided that the following conditions are met:
//
// 1. Redistributions of source code must retain the above copyright notice, this
//    list of conditions and the following disclaimer.
//
// 2. Redistributions in binary form must reproduce the above copyright notice,
//    this list of conditions and the following disclaimer in the documentation
//    and/or other materials provided with the distribution.
//
// 3. Neither the name of the copyright holder nor the names of its
//    contributors may be used to endorse or promote products derived from
//    this software without specific prior written permission.
//
// THIS SOFTWARE IS PROVIDED BY THE COPYRIGHT HOLDERS AND CONTRIBUTORS "AS IS"
// AND ANY EXPRESS OR IMPLIED WARRANTIES, INCLUDING, BUT NOT LIMITED TO, THE
// IMPLIED WARRANTIES OF MERCHANTABILITY AND FITNESS FOR A PARTICULAR PURPOSE ARE
// DISCLAIMED. IN NO EVENT SHALL THE COPYRIGHT HOLDER OR CONTRIBUTORS BE LIABLE
// FOR ANY DIRECT, INDIRECT, INCIDENTAL, SPECIAL, EXEMPLARY, OR CONSEQUENTIAL
// DAMAGES (INCLUDING, BUT NOT LIMITED TO, PROCUREMENT OF SUBSTITUTE GOODS OR
// SERVICES; LOSS OF USE, DATA, OR PROFITS; OR BUSINESS INTERRUPTION) HOWEVER
// CAUSED AND ON ANY THEORY OF LIABILITY, WHETHER IN CONTRACT, STRICT LIABILITY,
// OR TORT (INCLUDING NEGLIGENCE OR OTHERWISE) ARISING IN ANY WAY OUT OF THE USE
// OF THIS SOFTWARE, EVEN IF ADVISED OF THE POSSIBILITY OF SUCH DAMAGE.

use crate::coordinate_systems::{Barycentric, Cartesian, Face, FaceTriangle, SphericalTriangle};
use crate::core::coordinate_transforms::{barycentric_to_face, face_to_barycentric};
use crate::geometry::spherical_triangle::SphericalTriangleShape;
use crate::utils::vector::{quadruple_product, slerp, vector_difference};

/// Polyhedral projection implementing IVEA (Icosahedral Vertex Equal Area) projection
pub struct PolyhedralProjection;

impl PolyhedralProjection {
    /// Creates a new polyhedral projection instance
    pub fn new() -> Self {
        Self
    }

    /// Forward projection: converts a spherical point to face coordinates
    ///
    /// # Arguments
    ///
    /// * `v` - The spherical point to project
    /// * `spherical_triangle` - The spherical triangle vertices
    /// * `face_triangle` - The face triangle vertices
    ///
    /// # Returns
    ///
    /// The face coordinates
    pub fn forward(
        &self,
        v: Cartesian,
        spherical_triangle: SphericalTriangle,
        face_triangle: FaceTriangle,
    ) -> Face {
        let a = spherical_triangle.a;
        let b = spherical_triangle.b;
        let c = spherical_triangle.c;
        let mut triangle_shape = SphericalTriangleShape::new(vec![a, b, c])
            .expect("Failed to create spherical triangle");

        // When v is close to A, the quadruple product is unstable.
        // As we just need the intersection of two great circles we can use difference
        // between A and v, as it lies in the same plane of the great circle containing A & v
        let z = normalize(subtract(v, a));
        let p = normalize(quadruple_product(a, z, b, c));

        let h = vector_difference(a, v) / vector_difference(a, p);
        let area_abc = triangle_shape.get_area().get();
        let scaled_area = h / area_abc;
        let b_coords = Barycentric::new(
            1.0 - h,
            scaled_area
                * SphericalTriangleShape::new(vec![a, p, c])
                    .expect("Failed to create spherical triangle")
                    .get_area()
                    .get(),
            scaled_area
                * SphericalTriangleShape::new(vec![a, b, p])
                    .expect("Failed to create spherical triangle")
                    .get_area()
                    .get(),
        );
        barycentric_to_face(b_coords, face_triangle)
    }

    /// Inverse projection: converts face coordinates back to spherical coordinates
    ///
    /// # Arguments
    ///
    /// * `face_point` - The face coordinates
    /// * `face_triangle` - The face triangle vertices
    /// * `spherical_triangle` - The spherical triangle vertices
    ///
    /// # Returns
    ///
    /// The spherical coordinates
    pub fn inverse(
        &self,
        face_point: Face,
        face_triangle: FaceTriangle,
        spherical_triangle: SphericalTriangle,
    ) -> Cartesian {
        let a = spherical_triangle.a;
        let b = spherical_triangle.b;
        let c = spherical_triangle.c;
        let mut triangle_shape = SphericalTriangleShape::new(vec![a, b, c])
            .expect("Failed to create spherical triangle");
        let b_coords = face_to_barycentric(face_point, face_triangle);

        let threshold = 1.0 - 1e-14;
        if b_coords.u > threshold {
            return a;
        }
        if b_coords.v > threshold {
            return b;
        }
        if b_coords.w > threshold {
            return c;
        }

        let c1 = cross(b, c);
        let area_abc = triangle_shape.get_area().get();
        let h = 1.0 - b_coords.u;
        let r = b_coords.w / h;
        let alpha = r * area_abc;
        let s = alpha.sin();
        let half_c = (alpha / 2.0).sin();
        let cc = 2.0 * half_c * half_c; // Half angle formula

        let c01 = dot(a, b);
        let c12 = dot(b, c);
        let c20 = dot(c, a);
        let s12 = length(c1);

        let v = dot(a, c1); // Triple product of A, B, C. Constant??
        let f = s * v + cc * (c01 * c12 - c20);
        let g = cc * s12 * (1.0 + c01);
        let q = (2.0 / c12.acos()) * g.atan2(f);
        let p = slerp(b, c, q);
        let k = vector_difference(a, p);
        let t = self.safe_acos(h * k) / self.safe_acos(k);
        slerp(a, p, t)
    }

    /// Computes acos(1 - 2 * x * x) without loss of precision for small x
    ///
    /// # Arguments
    ///
    /// * `x` - Input value
    ///
    /// # Returns
    ///
    /// acos(1 - x)
    fn safe_acos(&self, x: f64) -> f64 {
        if x < 1e-3 {
            2.0 * x + x * x * x / 3.0
        } else {
            (1.0 - 2.0 * x * x).acos()
        }
    }
}

impl Default for PolyhedralProjection {
    fn default() -> Self {
        Self::new()
    }
}

// Helper functions for vector operations

/// Compute dot product of two vectors
fn dot(a: Cartesian, b: Cartesian) -> f64 {
    a.x() * b.x() + a.y() * b.y() + a.z() * b.z()
}

/// Compute cross product of two vectors
fn cross(a: Cartesian, b: Cartesian) -> Cartesian {
    Cartesian::new(
        a.y() * b.z() - a.z() * b.y(),
        a.z() * b.x() - a.x() * b.z(),
        a.x() * b.y() - a.y() * b.x(),
    )
}

/// Compute length of a vector
fn length(v: Cartesian) -> f64 {
    (v.x() * v.x() + v.y() * v.y() + v.z() * v.z()).sqrt()
}

/// Normalize a vector
fn normalize(v: Cartesian) -> Cartesian {
    let len = length(v);
    if len == 0.0 {
        return v;
    }
    Cartesian::new(v.x() / len, v.y() / len, v.z() / len)
}

/// Subtract two vectors
fn subtract(a: Cartesian, b: Cartesian) -> Cartesian {
    Cartesian::new(a.x() - b.x(), a.y() - b.y(), a.z() - b.z())
}
