// A5
// SPDX-License-Identifier: Apache-2.0
// Copyright (c) A5 contributors

use crate::coordinate_systems::{
    Cartesian, Face, FaceTriangle, Polar, Radians, Spherical, SphericalTriangle,
};
use crate::core::constants::{DISTANCE_TO_EDGE, INTERHEDRAL_ANGLE, PI_OVER_5, TWO_PI_OVER_5};
use crate::core::coordinate_transforms::{to_cartesian, to_face, to_polar, to_spherical};
use crate::core::origin::get_origins;
use crate::core::tiling::get_quintant_vertices;
use crate::core::utils::OriginId;
use crate::projections::crs::CRS;
use crate::projections::gnomonic::GnomonicProjection;
use crate::projections::polyhedral::PolyhedralProjection;
use std::thread_local;

type FaceTriangleIndex = usize; // 0-9

thread_local! {
    // Each thread gets its own heap-allocated DodecahedronProjection
    static THREAD_DODECA: *mut DodecahedronProjection = {
        let b = Box::new(DodecahedronProjection::new().unwrap());
        Box::into_raw(b) // raw pointer, lifetime is tied to thread
    };
}

pub struct DodecahedronProjection {
    face_triangles: Vec<Option<FaceTriangle>>,
    spherical_triangles: Vec<Option<SphericalTriangle>>,
    polyhedral: PolyhedralProjection,
    gnomonic: GnomonicProjection,
    crs: CRS,
}

impl DodecahedronProjection {
    pub fn new() -> Result<Self, String> {
        Ok(DodecahedronProjection {
            face_triangles: vec![None; 30], // 10 base + 10 reflected + 10 squashed
            spherical_triangles: vec![None; 240], // 120 base + 120 reflected
            polyhedral: PolyhedralProjection::new(),
            gnomonic: GnomonicProjection,
            crs: CRS::new()?,
        })
    }

    /// Get a reference to the thread local dodecahedron projection instance
    pub fn get_thread_local() -> &'static mut DodecahedronProjection {
        THREAD_DODECA.with(|ptr| unsafe { &mut **ptr })
    }

    /// Projects spherical coordinates to face coordinates using dodecahedron projection
    pub fn forward(&mut self, spherical: Spherical, origin_id: OriginId) -> Result<Face, String> {
        let origins = get_origins();
        if (origin_id as usize) >= origins.len() {
            return Err("Invalid origin ID".to_string());
        }
        let origin = &origins[origin_id as usize];

        // Transform back origin space
        let unprojected = to_cartesian(spherical);
        let out = transform_quat(unprojected, origin.inverse_quat);

        // Unproject gnomonically to polar coordinates in origin space
        let projected_spherical = to_spherical(out);
        let polar = self.gnomonic.forward(projected_spherical);

        // Rotate around face axis to remove origin rotation
        let rotated_polar = Polar::new(
            polar.rho(),
            Radians::new_unchecked(polar.gamma().get() - origin.angle.get()),
        );

        let face_triangle_index = self.get_face_triangle_index(rotated_polar)?;
        let reflect = self.should_reflect(rotated_polar);
        let face_triangle = self.get_face_triangle(face_triangle_index, reflect, false)?;
        let spherical_triangle =
            self.get_spherical_triangle(face_triangle_index, origin_id, reflect)?;

        Ok(self
            .polyhedral
            .forward(unprojected, spherical_triangle, face_triangle))
    }

    /// Unprojects face coordinates to spherical coordinates using dodecahedron projection
    pub fn inverse(&mut self, face: Face, origin_id: OriginId) -> Result<Spherical, String> {
        let polar = to_polar(face);
        let face_triangle_index = self.get_face_triangle_index(polar)?;

        let reflect = self.should_reflect(polar);
        let face_triangle = self.get_face_triangle(face_triangle_index, reflect, false)?;
        let spherical_triangle =
            self.get_spherical_triangle(face_triangle_index, origin_id, reflect)?;
        let unprojected = self
            .polyhedral
            .inverse(face, face_triangle, spherical_triangle);
        Ok(to_spherical(unprojected))
    }

    /// Detects when point is beyond the edge of the dodecahedron face
    fn should_reflect(&self, polar: Polar) -> bool {
        let normalized_gamma = self.normalize_gamma(polar.gamma());
        let test_polar = Polar::new(polar.rho(), normalized_gamma);
        let d = to_face(test_polar).x();
        d > DISTANCE_TO_EDGE
    }

    /// Given a polar coordinate, returns the index of the face triangle it belongs to
    fn get_face_triangle_index(&self, polar: Polar) -> Result<FaceTriangleIndex, String> {
        let gamma = polar.gamma().get();
        let index = ((gamma / PI_OVER_5.get()).floor() as i32 + 10) % 10;
        if index < 0 {
            Ok((index + 10) as usize)
        } else {
            Ok(index as usize)
        }
    }

    /// Gets the face triangle for a given polar coordinate
    fn get_face_triangle(
        &mut self,
        face_triangle_index: FaceTriangleIndex,
        reflected: bool,
        squashed: bool,
    ) -> Result<FaceTriangle, String> {
        if face_triangle_index > 9 {
            return Err("Face triangle index must be 0-9".to_string());
        }
        let mut index = face_triangle_index;
        if reflected {
            index += if squashed { 20 } else { 10 };
        }

        if index >= self.face_triangles.len() {
            return Err("Face triangle index out of bounds".to_string());
        }

        if let Some(cached) = &self.face_triangles[index] {
            return Ok(*cached);
        }

        let face_triangle = if reflected {
            self.get_reflected_face_triangle(face_triangle_index, squashed)?
        } else {
            self.get_base_face_triangle(face_triangle_index)?
        };

        self.face_triangles[index] = Some(face_triangle);
        Ok(face_triangle)
    }

    fn get_base_face_triangle(
        &self,
        face_triangle_index: FaceTriangleIndex,
    ) -> Result<FaceTriangle, String> {
        let quintant = face_triangle_index.div_ceil(2) % 5;
        let vertices = get_quintant_vertices(quintant);
        let verts = vertices.get_vertices();
        if verts.len() < 3 {
            return Err("Triangle vertices not available".to_string());
        }
        let (v_center, v_corner1, v_corner2) = (verts[0], verts[1], verts[2]);

        let v_edge_midpoint = Face::new(
            (v_corner1.x() + v_corner2.x()) / 2.0,
            (v_corner1.y() + v_corner2.y()) / 2.0,
        );

        let even = face_triangle_index % 2 == 0;

        // Note: center & midpoint compared to DGGAL implementation are swapped
        // as we are using a dodecahedron, rather than an icosahedron.
        Ok(if even {
            FaceTriangle::new(v_center, v_edge_midpoint, v_corner1)
        } else {
            FaceTriangle::new(v_center, v_corner2, v_edge_midpoint)
        })
    }

    fn get_reflected_face_triangle(
        &self,
        face_triangle_index: FaceTriangleIndex,
        squashed: bool,
    ) -> Result<FaceTriangle, String> {
        // First obtain ordinary unreflected triangle
        let base = self.get_base_face_triangle(face_triangle_index)?;
        let (mut a, b, c) = (base.a, base.b, base.c);

        // Reflect dodecahedron center (A) across edge (BC)
        let even = face_triangle_index % 2 == 0;
        a = Face::new(-a.x(), -a.y());
        let midpoint = if even { b } else { c };

        // Squashing is important. A squashed triangle when unprojected will yield the correct spherical triangle.
        let scale = if squashed {
            1.0 + 1.0 / INTERHEDRAL_ANGLE.get().cos()
        } else {
            2.0
        };
        a = Face::new(a.x() + midpoint.x() * scale, a.y() + midpoint.y() * scale);

        // Swap midpoint and corner to maintain correct vertex order
        Ok(FaceTriangle::new(a, c, b))
    }

    /// Gets the spherical triangle for a given face triangle index and origin
    fn get_spherical_triangle(
        &mut self,
        face_triangle_index: FaceTriangleIndex,
        origin_id: OriginId,
        reflected: bool,
    ) -> Result<SphericalTriangle, String> {
        let mut index = 10 * (origin_id as usize) + face_triangle_index; // 0-119
        if reflected {
            index += 120;
        }

        if index >= self.spherical_triangles.len() {
            return Err("Spherical triangle index out of bounds".to_string());
        }

        if let Some(cached) = &self.spherical_triangles[index] {
            return Ok(*cached);
        }

        let spherical_triangle =
            self.compute_spherical_triangle(face_triangle_index, origin_id, reflected)?;
        self.spherical_triangles[index] = Some(spherical_triangle);
        Ok(spherical_triangle)
    }

    fn compute_spherical_triangle(
        &mut self,
        face_triangle_index: FaceTriangleIndex,
        origin_id: OriginId,
        reflected: bool,
    ) -> Result<SphericalTriangle, String> {
        let origins = get_origins();
        if (origin_id as usize) >= origins.len() {
            return Err("Invalid origin ID".to_string());
        }
        let origin = &origins[origin_id as usize];

        let face_triangle = self.get_face_triangle(face_triangle_index, reflected, true)?;

        let mut spherical_vertices = Vec::new();
        for face in [face_triangle.a, face_triangle.b, face_triangle.c] {
            let polar = to_polar(face);
            let rotated_polar = Polar::new(
                polar.rho(),
                Radians::new_unchecked(polar.gamma().get() + origin.angle.get()),
            );
            let rotated = to_cartesian(self.gnomonic.inverse(rotated_polar));
            let transformed = transform_quat(rotated, origin.quat);
            let vertex = self.crs.get_vertex(transformed)?;
            spherical_vertices.push(vertex);
        }

        Ok(SphericalTriangle::new(
            spherical_vertices[0],
            spherical_vertices[1],
            spherical_vertices[2],
        ))
    }

    /// Normalizes gamma to the range [-PI_OVER_5, PI_OVER_5]
    fn normalize_gamma(&self, gamma: Radians) -> Radians {
        let segment = gamma.get() / TWO_PI_OVER_5.get();
        let s_center = segment.round();
        let s_offset = segment - s_center;

        // Azimuthal angle from triangle bisector
        let beta = s_offset * TWO_PI_OVER_5.get();
        Radians::new_unchecked(beta)
    }
}

impl Default for DodecahedronProjection {
    fn default() -> Self {
        Self::new().expect("Failed to create DodecahedronProjection")
    }
}

/// Transform a vector by a quaternion
fn transform_quat(v: Cartesian, q: [f64; 4]) -> Cartesian {
    let [qx, qy, qz, qw] = q;

    // First, convert vector to quaternion (w=0)
    let vx = v.x();
    let vy = v.y();
    let vz = v.z();

    // Compute q * v * q^(-1)
    // q^(-1) = conjugate(q) / |q|^2, but since q is unit quaternion, q^(-1) = conjugate(q)
    let qconj_x = -qx;
    let qconj_y = -qy;
    let qconj_z = -qz;
    let qconj_w = qw;

    // First multiplication: q * v
    let t1_x = qw * vx + qy * vz - qz * vy;
    let t1_y = qw * vy + qz * vx - qx * vz;
    let t1_z = qw * vz + qx * vy - qy * vx;
    let t1_w = -qx * vx - qy * vy - qz * vz;

    // Second multiplication: (q * v) * q^(-1)
    let result_x = t1_w * qconj_x + t1_x * qconj_w + t1_y * qconj_z - t1_z * qconj_y;
    let result_y = t1_w * qconj_y + t1_y * qconj_w + t1_z * qconj_x - t1_x * qconj_z;
    let result_z = t1_w * qconj_z + t1_z * qconj_w + t1_x * qconj_y - t1_y * qconj_x;

    Cartesian::new(result_x, result_y, result_z)
}
