// A5
// SPDX-License-Identifier: Apache-2.0
// Copyright (c) A5 contributors

use crate::coordinate_systems::{Polar, Radians, Spherical};

/// Gnomonic projection implementation that converts between spherical and polar coordinates.
pub struct GnomonicProjection;

impl GnomonicProjection {
    /// Projects spherical coordinates to polar coordinates using gnomonic projection
    ///
    /// # Arguments
    ///
    /// * `spherical` - Spherical coordinates [theta, phi]
    ///
    /// # Returns
    ///
    /// Polar coordinates [rho, gamma]
    pub fn forward(&self, spherical: Spherical) -> Polar {
        let theta = spherical.theta();
        let phi = spherical.phi();
        Polar::new(phi.get().tan(), theta)
    }

    /// Unprojects polar coordinates to spherical coordinates using gnomonic projection
    ///
    /// # Arguments
    ///
    /// * `polar` - Polar coordinates [rho, gamma]
    ///
    /// # Returns
    ///
    /// Spherical coordinates [theta, phi]
    pub fn inverse(&self, polar: Polar) -> Spherical {
        let rho = polar.rho();
        let gamma = polar.gamma();
        Spherical::new(gamma, Radians::new_unchecked(rho.atan()))
    }
}
