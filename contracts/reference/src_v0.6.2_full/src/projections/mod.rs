// A5
// SPDX-License-Identifier: Apache-2.0
// Copyright (c) A5 contributors

pub mod authalic;
pub mod crs;
pub mod dodecahedron;
pub mod gnomonic;
pub mod polyhedral;

pub use authalic::AuthalicProjection;
pub use crs::CRS;
pub use dodecahedron::DodecahedronProjection;
pub use gnomonic::GnomonicProjection;
pub use polyhedral::PolyhedralProjection;
