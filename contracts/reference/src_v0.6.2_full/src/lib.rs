// A5
// SPDX-License-Identifier: Apache-2.0
// Copyright (c) A5 contributors

// Internal modules - public only for testing
#[cfg_attr(not(test), allow(unused))]
pub mod coordinate_systems;
#[cfg_attr(not(test), allow(unused))]
pub mod core;
#[cfg_attr(not(test), allow(unused))]
pub mod geometry;
#[cfg_attr(not(test), allow(unused))]
pub mod projections;
#[cfg_attr(not(test), allow(unused))]
pub mod utils;

// PUBLIC API
// Indexing
pub use core::cell::{cell_to_boundary, cell_to_lonlat, lonlat_to_cell};
pub use core::hex::{hex_to_u64, u64_to_hex};

// Hierarchy
pub use core::cell_info::{cell_area, get_num_cells};
pub use core::serialization::{cell_to_children, cell_to_parent, get_res0_cells, get_resolution};

// Compaction
pub use core::compact::{compact, uncompact};

// Types
pub use coordinate_systems::{Degrees, LonLat, Radians};
pub use core::utils::A5Cell;
