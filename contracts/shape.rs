// unit `shape` : vertex counting of geometry::pentagon::PentagonShape (discharges the counting contracts that unit
// `glue` assumes for split_edges / get_vertices_vec / from_vertices)
use vstd::prelude::*;
verus! {

global size_of usize == 8;

#[verifier::external_body] #[derive(Clone, Copy)] pub struct Face { _p: f64 }

// float expressions of split_edges (linear interpolation between two vertices): no integer content
#[verifier::external_body]
pub fn lerp_face(v1: Face, v2: Face, j: usize, segments: usize) -> Face { unimplemented!() }

//@extract type Pentagon from src/geometry/pentagon.rs
//@end
//@extract type Triangle from src/geometry/pentagon.rs
//@end
//@extract struct PentagonShape from src/geometry/pentagon.rs
//@end

// std contract of <[T]>::to_vec on a fixed-size array (ASSUMED): same length
#[verifier::external_body]
pub fn arr5_to_vec(a: Pentagon) -> (r: Vec<Face>) ensures r@.len() == 5, { a.to_vec() }
#[verifier::external_body]
pub fn arr3_to_vec(a: Triangle) -> (r: Vec<Face>) ensures r@.len() == 3, { a.to_vec() }

// `for vertex in &mut self.vertices { *vertex = Face::new(<float expression of *vertex>); }` : an in-place map over the
// vertices (no integer content; Verus has no specification for slice::IterMut).  ASSUMED: the length is unchanged.
#[verifier::external_body]
pub fn map_vertices_in_place(v: &mut Vec<Face>, kind: u8, arg: Face)
    ensures final(v)@.len() == old(v)@.len(),
{ unimplemented!() }
#[verifier::external_body]
pub fn face_of_scale(scale: f64) -> Face { unimplemented!() }
#[verifier::external_body]
pub fn face_zero() -> Face { unimplemented!() }

//# tags=C11
impl PentagonShape {
    pub closed spec fn nverts(&self) -> nat { self.vertices@.len() }

    // signed-area test (float): which way the ring winds
    #[verifier::external_body]
    fn is_winding_correct(&self) -> bool { unimplemented!() }

    // first five vertices as a fixed array (loop over .iter().enumerate().take(5)): no counting content
    #[verifier::external_body]
    pub fn get_vertices(&self) -> Pentagon { unimplemented!() }

    #[verifier::external_body]
    fn clone_shape(&self) -> (r: PentagonShape)
        ensures r.nverts() == self.nverts(),
    { unimplemented!() }

//@extract fn new from src/geometry/pentagon.rs impl=PentagonShape ret=r tags=C11
//@rewrite "vertices: vertices.to_vec()," => "vertices: arr5_to_vec(vertices),"
//@rewrite "pentagon.vertices.reverse();" => "vec_reverse_face(&mut pentagon.vertices);"
//@spec
ensures
    r.nverts() == 5,                                                                // [C11:PentagonShape.new.count]
//@end

//@extract fn new_triangle from src/geometry/pentagon.rs impl=PentagonShape ret=r tags=C11
//@rewrite "vertices: vertices.to_vec()," => "vertices: arr3_to_vec(vertices),"
//@rewrite "pentagon.vertices.reverse();" => "vec_reverse_face(&mut pentagon.vertices);"
//@spec
ensures
    r.nverts() == 3,                                                                // [C11:PentagonShape.new_triangle.count]
//@end

//@extract fn scale from src/geometry/pentagon.rs impl=PentagonShape ret=r tags=C11
//@rewrite "for vertex in &mut self.vertices {\n            *vertex = Face::new(vertex.x() * scale, vertex.y() * scale);\n        }" => "map_vertices_in_place(&mut self.vertices, 0, face_of_scale(scale));"
//@spec
ensures
    r.nverts() == old(self).nverts(),                                               // [C11:PentagonShape.scale.count]
    *final(r) == *final(self),                                                      // [C11:PentagonShape.scale.returns-self]
//@end

//@extract fn rotate180 from src/geometry/pentagon.rs impl=PentagonShape ret=r tags=C11
//@rewrite "for vertex in &mut self.vertices {\n            *vertex = Face::new(-vertex.x(), -vertex.y());\n        }" => "map_vertices_in_place(&mut self.vertices, 1, face_zero());"
//@spec
ensures
    r.nverts() == old(self).nverts(),                                               // [C11:PentagonShape.rotate180.count]
    *final(r) == *final(self),                                                      // [C11:PentagonShape.rotate180.returns-self]
//@end

//@extract fn reflect_y from src/geometry/pentagon.rs impl=PentagonShape ret=r tags=C11
//@rewrite "for vertex in &mut self.vertices {\n            *vertex = Face::new(vertex.x(), -vertex.y());\n        }" => "map_vertices_in_place(&mut self.vertices, 2, face_zero());"
//@rewrite "self.vertices.reverse();" => "vec_reverse_face(&mut self.vertices);"
//@spec
ensures
    r.nverts() == old(self).nverts(),                                               // [C11:PentagonShape.reflect_y.count]
    *final(r) == *final(self),                                                      // [C11:PentagonShape.reflect_y.returns-self]
//@end

//@extract fn translate from src/geometry/pentagon.rs impl=PentagonShape ret=r tags=C11
//@rewrite "for vertex in &mut self.vertices {\n            *vertex = Face::new(vertex.x() + translation.x(), vertex.y() + translation.y());\n        }" => "map_vertices_in_place(&mut self.vertices, 3, translation);"
//@spec
ensures
    r.nverts() == old(self).nverts(),                                               // [C11:PentagonShape.translate.count]
    *final(r) == *final(self),                                                      // [C11:PentagonShape.translate.returns-self]
//@end

//@extract fn from_vertices from src/geometry/pentagon.rs impl=PentagonShape ret=r tags=C11
//@rewrite "pentagon.vertices.reverse();" => "vec_reverse_face(&mut pentagon.vertices);"
//@spec
ensures
    r.nverts() == vertices@.len(),                                                  // [C11:from_vertices.count]
//@end

//@extract fn get_vertices_vec from src/geometry/pentagon.rs impl=PentagonShape ret=r tags=C11
//@spec
ensures
    r@.len() == self.nverts(),                                                      // [C11:get_vertices_vec.count]
//@end

//@extract fn split_edges from src/geometry/pentagon.rs impl=PentagonShape ret=r tags=C11,C14
//@fnattr #[verifier::loop_isolation(false)]
//@rewrite "return self.clone();" => "return self.clone_shape();"
//@rewrite? "let $t = $j as f64 / segments as f64;\n let $ip = Face::new(\n $v1.x() + $t * ($v2.x() - $v1.x()),\n $v1.y() + $t * ($v2.y() - $v1.y()),\n );" => "let $ip = lerp_face($v1, $v2, $j, segments);"
//@rewrite? "let $t = $j as f64 / $den;\n let $ip = Face::new(\n $v1.x() + $t * ($v2.x() - $v1.x()),\n $v1.y() + $t * ($v2.y() - $v1.y()),\n );" => "let $ip = lerp_face($v1, $v2, $j, segments);"
//@spec
ensures
    r.nverts() == self.nverts() * (if segments <= 1 { 1nat } else { segments as nat }),   // [C11:split_edges.count]
//@at after-let n
proof {
    assert(0 * segments == 0) by (nonlinear_arith);
}
//@loop 1
invariant
    n == self.vertices@.len(),
    new_vertices@.len() == i * segments,
//@loop 2
invariant
    new_vertices@.len() == i * segments + j,
//@at loop 1 body-start
proof {
    assert((i + 1) * segments == i * segments + segments) by (nonlinear_arith);
    assert(i * segments <= n * segments) by (nonlinear_arith) requires i <= n;
}
//@end
}


// =====================================================================================================
// src/core/tiling.rs : which shape (how many vertices) each tiling call hands out.  Discharges the counting
// contracts that unit `glue` assumes for get_pentagon_vertices / get_quintant_vertices / get_face_vertices /
// get_quintant_polar.  Float content (matrix products, basis change, 2^-r scaling, rotation tables) is opaque.
//# tags=C11
//@extract type Quaternary from src/core/hilbert.rs
//@end
//@extract type Flip from src/core/hilbert.rs
//@end
//@extract const YES from src/core/hilbert.rs
//@end
//@extract const NO from src/core/hilbert.rs
//@end
#[verifier::external_body] #[derive(Clone, Copy)] pub struct IJ { _p: f64 }
//@extract struct Anchor from src/core/hilbert.rs
//@end
#[verifier::external_body] #[derive(Clone, Copy)] pub struct Mat2 { _p: f64 }
#[verifier::external_body] #[derive(Clone, Copy)] pub struct Polar { _p: f64 }

pub open spec fn flip_ok(f: Flip) -> bool { f == -1 || f == 1 }

// core/pentagon.rs lazily built constants: PentagonShape::new([a, b, c, d, e]) and
// PentagonShape::new([u, v, w, 0, 0]) - both FIVE-vertex shapes (ASSUMED here; PentagonShape::new is verified above)
#[verifier::external_body]
pub fn pentagon() -> (r: &'static PentagonShape) ensures r.nverts() == 5, { unimplemented!() }
#[verifier::external_body]
pub fn triangle() -> (r: &'static PentagonShape) ensures r.nverts() == 5, { unimplemented!() }
#[verifier::external_body]
pub fn v() -> Face { unimplemented!() }
#[verifier::external_body]
pub fn shift_left() -> Face { unimplemented!() }
#[verifier::external_body]
pub fn shift_right() -> Face { unimplemented!() }
#[verifier::external_body]
pub fn quintant_rotations() -> [Mat2; 5] { unimplemented!() }
// float expressions (no integer content)
#[verifier::external_body]
pub fn mat_apply(m: &Mat2, p: Face) -> Face { unimplemented!() }
#[verifier::external_body]
pub fn basis_apply(offset: IJ) -> Face { unimplemented!() }
#[verifier::external_body]
pub fn f_inv_pow2(resolution: i32) -> f64 { unimplemented!() }
#[verifier::external_body]
pub fn polar_gamma(p: Polar) -> f64 { unimplemented!() }
// `(gamma / TWO_PI_OVER_5).round() as i32` : ASSUMED within -3..=3 (gamma is an atan2 result, |gamma| <= pi)
#[verifier::external_body]
pub fn gamma_fifths(gamma: f64) -> (r: i32) ensures -3 <= r <= 3, { unimplemented!() }

//@extract fn transform_pentagon from src/core/tiling.rs tags=C11
//@fnattr #[verifier::loop_isolation(false)]
//@rewrite "for vertex in vertices {" => "for __i in 0..vertices.len() {\n        let vertex = &vertices[__i];"
//@rewrite "let transformed_x = matrix.m00 * vertex.x() + matrix.m01 * vertex.y();\n        let transformed_y = matrix.m10 * vertex.x() + matrix.m11 * vertex.y();\n        transformed_vertices.push(Face::new(transformed_x, transformed_y));" => "transformed_vertices.push(mat_apply(matrix, *vertex));"
//@spec
ensures
    final(pentagon).nverts() == old(pentagon).nverts(),                              // [C11:transform_pentagon.count]
//@loop 1
invariant
    vertices@.len() == old(pentagon).nverts(),
    transformed_vertices@.len() == __i,
//@end

//@extract fn get_pentagon_vertices from src/core/tiling.rs ret=r tags=C11,C14
//@rewrite "triangle().clone()" => "triangle().clone_shape()"
//@rewrite "pentagon().clone()" => "pentagon().clone_shape()"
//@rewrite "let basis_mat = basis();\n    let translation_x = basis_mat.m00 * anchor.offset.x() + basis_mat.m01 * anchor.offset.y();\n    let translation_y = basis_mat.m10 * anchor.offset.x() + basis_mat.m11 * anchor.offset.y();\n    let translation = Face::new(translation_x, translation_y);" => "let translation = basis_apply(anchor.offset);"
//@rewrite "pentagon_shape.scale(1.0 / (2.0_f64.powi(resolution)));" => "pentagon_shape.scale(f_inv_pow2(resolution));"
//@spec
requires
    quintant < 5,
    flip_ok(anchor.flips[0]) && flip_ok(anchor.flips[1]),
ensures
    r.nverts() == 5,                                                                // [C11:get_pentagon_vertices.count]
//@end

//@extract fn get_quintant_vertices from src/core/tiling.rs ret=r tags=C11,C14
//@spec
requires
    quintant < 5,
ensures
    r.nverts() == 3,                                                                // [C11:get_quintant_vertices.count]
//@end

//@extract fn get_face_vertices from src/core/tiling.rs ret=r tags=C11,C14
//@fnattr #[verifier::loop_isolation(false)]
//@rewrite "for rotation in &rotations {" => "for __i in 0..5usize {\n        let rotation = &rotations[__i];"
//@rewrite "let transformed_x = rotation.m00 * v_vertex.x() + rotation.m01 * v_vertex.y();\n        let transformed_y = rotation.m10 * v_vertex.x() + rotation.m11 * v_vertex.y();\n        vertices.push(Face::new(transformed_x, transformed_y));" => "vertices.push(mat_apply(rotation, v_vertex));"
//@rewrite "vertices.reverse();" => "vec_reverse_face(&mut vertices);"
//@spec
ensures
    r.nverts() == 5,                                                                // [C11:get_face_vertices.count]
//@loop 1
invariant
    vertices@.len() == __i,
//@end

//@extract fn get_quintant_polar from src/core/tiling.rs ret=r tags=C14
//@rewrite "polar.gamma().0" => "polar_gamma(polar)"
//@rewrite "(gamma / (TWO_PI_OVER_5).0).round() as i32" => "gamma_fifths(gamma)"
//@spec
ensures
    r < 5,                                                                          // [C14:get_quintant_polar.in-range]
//@end

#[verifier::external_body]
pub fn vec_reverse_face(v: &mut Vec<Face>)
    ensures final(v)@.len() == old(v)@.len(),
{ v.reverse() }

} // verus!
fn main() {}
