// unit `shape` : vertex counting of geometry::pentagon::PentagonShape (discharges the counting contracts that unit
// `glue` assumes for split_edges / get_vertices_vec / from_vertices)
use vstd::prelude::*;
verus! {

global size_of usize == 8;

#[verifier::external_body] #[derive(Clone, Copy)] pub struct Face { _p: f64 }

// float expressions of split_edges (linear interpolation between two vertices): no integer content
#[verifier::external_body]
pub fn lerp_face(v1: Face, v2: Face, j: usize, segments: usize) -> Face { unimplemented!() }

//@extract struct PentagonShape from src/geometry/pentagon.rs
//@end

//# tags=C11
impl PentagonShape {
    pub closed spec fn nverts(&self) -> nat { self.vertices@.len() }

    // signed-area test (float): which way the ring winds
    #[verifier::external_body]
    fn is_winding_correct(&self) -> bool { unimplemented!() }

    #[verifier::external_body]
    fn clone_shape(&self) -> (r: PentagonShape)
        ensures r.nverts() == self.nverts(),
    { unimplemented!() }

//@extract fn from_vertices from src/geometry/pentagon.rs impl=PentagonShape ret=r tags=C11
//@rewrite "pentagon.vertices.reverse();" => "vec_reverse_face(&mut pentagon.vertices);"
//@spec
ensures
    r.nverts() == vertices@.len(),                                                  // [C11:from_vertices.count]
//@end

//@extract fn get_vertices_vec from src/geometry/pentagon.rs impl=PentagonShape ret=r tags=C11
//@spec
ensures
    r@.len() == self.nverts(),                                                      // [C11:get_vertices_vec.count]
//@end

//@extract fn split_edges from src/geometry/pentagon.rs impl=PentagonShape ret=r tags=C11,C14
//@fnattr #[verifier::loop_isolation(false)]
//@rewrite "return self.clone();" => "return self.clone_shape();"
//@rewrite "let t = j as f64 / segments as f64;\n                let interpolated = Face::new(\n                    v1.x() + t * (v2.x() - v1.x()),\n                    v1.y() + t * (v2.y() - v1.y()),\n                );" => "let interpolated = lerp_face(v1, v2, j, segments);"
//@spec
ensures
    r.nverts() == self.nverts() * (if segments <= 1 { 1nat } else { segments as nat }),   // [C11:split_edges.count]
//@at after-let n
proof {
    assert(0 * segments == 0) by (nonlinear_arith);
}
//@loop 1
invariant
    n == self.vertices@.len(),
    new_vertices@.len() == i * segments,
//@loop 2
invariant
    new_vertices@.len() == i * segments + j,
//@at loop 1 body-start
proof {
    assert((i + 1) * segments == i * segments + segments) by (nonlinear_arith);
    assert(i * segments <= n * segments) by (nonlinear_arith) requires i <= n;
}
//@end
}

#[verifier::external_body]
pub fn vec_reverse_face(v: &mut Vec<Face>)
    ensures final(v)@.len() == old(v)@.len(),
{ v.reverse() }

} // verus!
fn main() {}
