verus! {

// R5: the three std-collection statements of compact() under assumed contracts
#[verifier::external_body]
pub struct U64Set { inner: std::collections::HashSet<u64> }

impl View for U64Set {
    type V = Set<u64>;
    uninterp spec fn view(&self) -> Set<u64>;
}

impl U64Set {
    #[verifier::external_body]
    pub fn with_capacity(n: usize) -> (r: U64Set)
        ensures r@ == Set::<u64>::empty(),
    { U64Set { inner: std::collections::HashSet::with_capacity(n) } }

    #[verifier::external_body]
    pub fn insert(&mut self, v: u64) -> (r: bool)
        ensures final(self)@ == old(self)@.insert(v),
    { self.inner.insert(v) }
}

#[verifier::external_body]
pub fn std_set_into_vec(s: U64Set) -> (v: Vec<u64>)
    ensures v@.no_duplicates(), v@.to_set() == s@,
        v@.len() <= 0x0fffffffffffffff,   // a Vec<u64> holds at most isize::MAX / 8 elements
{ s.inner.into_iter().collect() }

// `v.sort_unstable_by_key(|&cell| scan_key(cell))`: std sort under an ASSUMED contract (sorted by the key function,
// permutation); the key function itself (scan_key) is extracted and verified below
#[verifier::external_body]
pub fn std_sort_by_scan_key(v: &mut Vec<u64>)
    ensures
        forall|k: int, j: int| 0 <= k < j < final(v)@.len() ==> !scan_lt(final(v)@[j], final(v)@[k]),
        final(v)@.len() == old(v)@.len(),
        final(v)@.to_set() == old(v)@.to_set(),
        old(v)@.no_duplicates() ==> final(v)@.no_duplicates(),
{ v.sort_unstable_by_key(|&cell| scan_key(cell)) }

//@extract fn scan_key from src/core/compact.rs ret=r tags=C08,C10,C14
//@spec
ensures
    r.0 == key_of(cell), r.1 == cell,                                              // [C08,C10:scan_key.value]
//@at entry
proof {
    assert((cell >> 58) < 64) by (bit_vector);
    assert((1u64 << 57) == 0x0200000000000000u64) by (bit_vector);
}
//@end

//@extract fn compact from src/core/compact.rs ret=res tags=C08,C14
//@fnattr #[verifier::loop_isolation(false)]
//@rewrite? "let mut unique_cells: HashSet<u64> = HashSet::with_capacity(cells.len());" => "let mut unique_cells: U64Set = U64Set::with_capacity(cells.len());"
//@rewrite? "let mut current_cells: Vec<u64> = unique_cells.into_iter().collect();" => "let mut current_cells: Vec<u64> = std_set_into_vec(unique_cells);"
//@rewrite? "current_cells.sort_unstable_by_key(|&cell| scan_key(cell));" => "std_sort_by_scan_key(&mut current_cells);"
//@spec
ensures
    all_decodable(cells@) ==> res is Ok,                                                                           // [C08:compact.total]
    !all_decodable(cells@) ==> res is Err,                                                                         // [C14:compact.rejects-non-cells]
    all_decodable(cells@) && res is Ok ==> all_canonical(res->Ok_0@),                                              // [C05,C14:compact.canonical-output]
    all_decodable(cells@) && res is Ok ==> (forall|m: int| max_res_le(cells@, m) ==> max_res_le(res->Ok_0@, m)),   // [C08:compact.no-finer-output]
    all_decodable(cells@) && res is Ok ==> (forall|y: A5Cell| valid(y) && max_res_le(cells@, y.resolution as int)
        ==> (covers(res->Ok_0@, y) <==> covers(cells@, y))),                                                       // [C08:compact.cover-preserved]
    all_decodable(cells@) && antichain_set(cells@) && res is Ok ==> antichain(res->Ok_0@),                         // [C08:compact.stays-non-overlapping]
    all_decodable(cells@) && res is Ok ==> res->Ok_0@.no_duplicates() && sorted_scan(res->Ok_0@),                  // [C08:compact.no-duplicates]
    all_decodable(cells@) && antichain_set(cells@) && res is Ok ==> maximal(res->Ok_0@),                           // [C10:compact.maximal]
    res is Ok ==> no_merge_possible(res->Ok_0@),                                                                   // [C10:compact.fixed-point]
    res is Ok ==> (forall|s: Seq<u64>| sorted_scan(s) && s.to_set() == canon_set(cells@, cells@.len() as int) && no_merge_possible(s) ==> res->Ok_0@ == s),   // [C10:compact.fixed-point-returned-unchanged]
    res is Ok ==> compact_fn_of_set(cells@, res->Ok_0@),                                                           // [C08:compact.function-of-input-set]
//@at entry
hide(enc); hide(dec); hide(decodable); hide(probe); hide(kids_ids); hide(valid); hide(is_desc); hide(anc);
//@at before-return 1
proof {
    lemma_empty_maximal();
    assert forall|s: Seq<u64>| #[trigger] sorted_scan(s) && s.to_set() == canon_set(cells@, cells@.len() as int) implies Seq::<u64>::empty() == s by {
        if s.len() > 0 {
            assert(s.to_set().contains(s[0]));
            lemma_canon_set_mem(cells@, 0);
            assert(canon_set(cells@, 0).contains(s[0]));
        }
        assert(s =~= Seq::<u64>::empty());
    }
    assert(compact_fn_of_set(cells@, Seq::<u64>::empty())) by {
        assert(Seq::<u64>::empty().to_set() =~= canon_set(cells@, 0));
        assert(sorted_scan(Seq::<u64>::empty()));
        assert(iter_pass(Seq::<u64>::empty(), 0) == Seq::<u64>::empty());
    }
}
//@loop 1
invariant
    unique_cells@ == canon_set(cells@, __k_cell as int),                                                           // [C08:compact.canonical-forms-collected]
    forall|j: int| 0 <= j < __k_cell ==> decodable(#[trigger] cells@[j]),
//@at loop 1 body-start
proof {
    lemma_res_range(cell, 29);
    lemma_dec_res(cell);
    if decodable(cell) {
        lemma_enc_dec(cell);
        assert(anc(dec(cell), res_of(cell)) == dec(cell)) by { reveal(anc); }
    }
}
//@at loop 1 body-end
proof {
    lemma_canon_set_mem(cells@, __k_cell as int);
    lemma_canon_set_mem(cells@, __k_cell as int + 1);
    assert(canon_set(cells@, __k_cell as int + 1) =~= canon_set(cells@, __k_cell as int).insert(canon(cell))) by {
        assert forall|v: u64| canon_set(cells@, __k_cell as int + 1).contains(v) <==> canon_set(cells@, __k_cell as int).insert(canon(cell)).contains(v) by {
            if canon_set(cells@, __k_cell as int + 1).contains(v) {
                let j = choose|j: int| 0 <= j < __k_cell + 1 && v == canon(#[trigger] cells@[j]);
                if j < __k_cell { assert(canon_set(cells@, __k_cell as int).contains(v)); }
            }
            if canon_set(cells@, __k_cell as int).contains(v) {
                let j = choose|j: int| 0 <= j < __k_cell && v == canon(#[trigger] cells@[j]);
                assert(0 <= j < __k_cell + 1);
            }
            if v == canon(cell) { assert(v == canon(cells@[__k_cell as int])); }
        }
    }
}
//@at after "std_sort_by_scan_key(&mut current_cells);"
let ghost init = current_cells@;
let ghost mut npass: nat = 0;
proof {
    // C08 order / multiplicity independence: the working list is the unique strictly sorted
    // enumeration of the input SET (lemma_sorted_unique); `cells` is not read again below.
    assert(sorted_scan(current_cells@)) by {                                                                       // [C08:compact.input-normalised]
        assert forall|k: int, j: int| 0 <= k < j < current_cells@.len() implies scan_lt(current_cells@[k], current_cells@[j]) by {
            assert(current_cells@[k] != current_cells@[j]);
            assert(!scan_lt(current_cells@[j], current_cells@[k]));
        }
    }
    assert(current_cells@.to_set() == canon_set(cells@, cells@.len() as int));                                     // [C08:compact.input-set]
    if all_decodable(cells@) {
        lemma_initial_list(cells@, init);
        lemma_refines_refl(init);
        if antichain_set(cells@) {
            lemma_initial_ordered(init);
        }
    }
}
//@loop 2
invariant
    current_cells@.len() <= 0x0fffffffffffffff, // [C14:compact.length-bound]
    all_decodable(cells@) ==> refines(current_cells@, init),   // [C08:compact.pass-keeps-region]
    !changed ==> no_merge_possible(current_cells@),            // [C10:compact.last-pass-found-nothing]
    no_merge_possible(init) ==> current_cells@ == init,        // [C10:compact.nothing-to-merge-nothing-changes]
    current_cells@ == iter_pass(init, npass),                  // [C08:compact.passes-of-the-normalised-list]
decreases current_cells@.len(), (if changed { 1int } else { 0int }),
//@at after-let i
proof {
    lemma_comb_start(current_cells@);
    assert(result@ + pass_from(current_cells@, 0) =~= pass_from(current_cells@, 0));
    if all_decodable(cells@) { assert(all_canonical(current_cells@)) by { reveal(refines); } lemma_refines_refl(current_cells@); }
}
//@loop 3
invariant
    i <= current_cells@.len(),                  // [C14:compact.scan-in-bounds]
    result@.len() <= i,                         // [C14:compact.pass-does-not-grow]
    changed ==> result@.len() < i,              // [C14:compact.progress-when-changed]
    !changed ==> result@ == current_cells@.subrange(0, i as int),                                   // [C10:compact.unchanged-prefix]
    !changed ==> (forall|a: int| 0 <= a < i ==> !merge_test(current_cells@, a)),                     // [C10:compact.no-merge-so-far]
    no_merge_possible(current_cells@) ==> !changed,                                                  // [C10:compact.merge-implies-test]
    all_decodable(cells@) ==> refines(comb(result@, current_cells@, i as int), current_cells@),   // [C08:compact.scan-keeps-region]
    result@ + pass_from(current_cells@, i as int) == pass_from(current_cells@, 0),                // [C08:compact.scan-is-pass-function]
decreases current_cells@.len() - i,
//@at loop 3 body-start
proof {
    lemma_comb_keep(result@, current_cells@, i as int);
    lemma_res_range(current_cells@[i as int], 29);
}
let ghost result0 = result@;
let ghost i0 = i as int;
//@loop 4
invariant
    1 <= j <= expected_children,
    has_all_siblings ==> (forall|jj: int| 1 <= jj < j ==> #[trigger] current_cells@[i + jj] == cell + jj * stride),   // [C08:compact.sibling-test]
    !has_all_siblings ==> !merge_test(current_cells@, i as int),                                                     // [C10:compact.test-failed]
//@at loop 4 body-start
proof {
    lemma_stride_bound(resolution as int);
    assert(j * stride <= 11 * 0x0400000000000000) by (nonlinear_arith)
        requires 0 <= j <= 11, 0 <= stride <= 0x0400000000000000;
}
//@at before "let parent = cell_to_parent"
proof {
    if all_decodable(cells@) {
        assert(canonical(cell)) by { reveal(refines); }
        lemma_canonical_decodable(cell);
        lemma_dec_res(cell);
    }
}
//@at after-let parent
proof {
    assert(merge_test(current_cells@, i as int));
    lemma_dec_res(cell);
    assert(parent == parent_id(cell));
    assert(pass_from(current_cells@, i0) == seq![parent] + pass_from(current_cells@, i0 + expected_children));
    if all_decodable(cells@) {
        lemma_comb_merge(result@, current_cells@, i as int, cell, parent);
    }
}
//@at before "result.push(cell);" #1
proof {
    assert(!merge_test(current_cells@, i as int));
    assert(pass_from(current_cells@, i0) == seq![cell] + pass_from(current_cells@, i0 + 1));
    assert(current_cells@.subrange(0, i as int).push(current_cells@[i as int]) =~= current_cells@.subrange(0, i as int + 1));
}
//@at before "result.push(cell);" #2
proof {
    assert(!merge_test(current_cells@, i as int));
    assert(pass_from(current_cells@, i0) == seq![cell] + pass_from(current_cells@, i0 + 1));
    assert(current_cells@.subrange(0, i as int).push(current_cells@[i as int]) =~= current_cells@.subrange(0, i as int + 1));
}
//@at after "i += expected_children;"
proof {
    assert(result@ + pass_from(current_cells@, i as int) =~= result0 + (seq![parent] + pass_from(current_cells@, i as int)));
}
//@at after "i += 1;" #1
proof {
    assert(result@ + pass_from(current_cells@, i as int) =~= result0 + (seq![cell] + pass_from(current_cells@, i as int)));
}
//@at after "i += 1;" #2
proof {
    assert(result@ + pass_from(current_cells@, i as int) =~= result0 + (seq![cell] + pass_from(current_cells@, i as int)));
}
//@at before "current_cells = result;"
proof {
    assert(result@ + pass_from(current_cells@, i as int) =~= result@);
    npass = npass + 1;
    assert(iter_pass(init, npass) == pass_from(iter_pass(init, (npass - 1) as nat), 0));
    assert(current_cells@.subrange(0, current_cells@.len() as int) =~= current_cells@);
    lemma_comb_end(result@, current_cells@);
    if all_decodable(cells@) { lemma_refines_trans(result@, current_cells@, init); }
}
//@at before-tail
proof {
    assert(sorted_scan(init) && init.to_set() == canon_set(cells@, cells@.len() as int));
    assert(compact_fn_of_set(cells@, current_cells@));
    assert forall|s: Seq<u64>| sorted_scan(s) && s.to_set() == canon_set(cells@, cells@.len() as int) && no_merge_possible(s) implies current_cells@ == s by {
        lemma_sorted_scan_unique(s, init);
    }
    if all_decodable(cells@) {
        lemma_compact_final(cells@, init, current_cells@);
        if antichain_set(cells@) { lemma_maximal(current_cells@); }
    }
}
//@end

} // verus!
