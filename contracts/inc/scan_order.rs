//# tags=C10
// ---- the order in which compact() scans: by ID, except base cells (ordered where their quintants are) and the
//      world cell (directly after base cell 0)
verus! {

pub open spec fn key_of(x: u64) -> u64 {
    if res_of(x) == 0 { (mul(5, x >> 58) << 58) | (x & 0x03ffffffffffffffu64) }
    else if res_of(x) == -1 { 0x0200000000000001u64 }
    else { x }
}

pub open spec fn scan_lt(x: u64, y: u64) -> bool { key_of(x) < key_of(y) || (key_of(x) == key_of(y) && x < y) }

pub open spec fn sorted_scan(l: Seq<u64>) -> bool { forall|k: int, j: int| 0 <= k < j < l.len() ==> scan_lt(l[k], l[j]) }

pub proof fn bv_base_key(f: u64)
    requires f < 12,
    ensures
        ((f << 58) | (1u64 << 57)) >> 58 == f,
        ((mul(5, f) << 58) | (((f << 58) | (1u64 << 57)) & 0x03ffffffffffffffu64)) == 5 * f * 0x0400000000000000 + 0x0200000000000000,
{
    assert(f < 12 ==> ((f << 58) | (1u64 << 57)) >> 58 == f
        && ((mul(5, f) << 58) | (((f << 58) | (1u64 << 57)) & 0x03ffffffffffffffu64)) == add(mul(mul(5, f), 0x0400000000000000u64), 0x0200000000000000u64)
        && mul(mul(5, f), 0x0400000000000000u64) <= 0xdc00000000000000u64 && mul(5, f) <= 55) by (bit_vector);
    assert(5 * f * 0x0400000000000000 == mul(mul(5, f), 0x0400000000000000u64)) by (nonlinear_arith)
        requires f < 12, mul(5, f) == 5 * f, mul(mul(5, f), 0x0400000000000000u64) == mul(5, f) * 0x0400000000000000
    { }
}

/// the scan key of a valid cell lies inside the cell's own leaf interval
pub proof fn lemma_key_in_interval(x: u64)
    requires canonical(x),
    ensures leaf_lo(dec(x)) <= key_of(x) < leaf_hi(dec(x)),
{
    lemma_canonical_decodable(x);
    lemma_dec_res(x);
    let c = dec(x);
    if c.resolution >= 1 {
        thm_subtree_is_span(c, c);
    } else if c.resolution == 0 {
        let f = c.origin_id as u64;
        assert(x == enc(c));
        assert(c.s == 0 && c.segment == 0);
        bv_zero_field(f << 58, 58);
        assert(x == (f << 58) | (1u64 << 57));
        bv_base_key(f);
        assert(mul(5, f) == 5 * f);
        assert(mul(mul(5, f), 0x0400000000000000u64) == mul(5, f) * 0x0400000000000000) by {
            assert(f < 12 ==> mul(mul(5, f), 0x0400000000000000u64) / 0x0400000000000000u64 == mul(5, f)) by (bit_vector);
        }
    }
}

/// leaf intervals of two non-overlapping valid cells are disjoint
pub proof fn lemma_nonoverlap_disjoint(a: A5Cell, b: A5Cell)
    requires valid(a), valid(b), !overlap(a, b),
    ensures leaf_hi(a) <= leaf_lo(b) || leaf_hi(b) <= leaf_lo(a),
{
    if a.resolution == -1 || b.resolution == -1 {
        // the world cell is an ancestor of everything
        assert(false);
    } else if a.resolution >= 1 && b.resolution >= 1 {
        if enc(a) == enc(b) { lemma_enc_injective(a, b); }
        if enc(a) < enc(b) { lemma_pair_ordered(a, b); } else { lemma_pair_ordered(b, a); }
    } else if a.resolution == 0 && b.resolution == 0 {
        assert(a.origin_id != b.origin_id);
        let fa = a.origin_id as int; let fb = b.origin_id as int;
        if fa < fb { assert((5 * fa + 5) * 0x0400000000000000 <= 5 * fb * 0x0400000000000000) by (nonlinear_arith) requires fa + 1 <= fb; }
        else { assert((5 * fb + 5) * 0x0400000000000000 <= 5 * fa * 0x0400000000000000) by (nonlinear_arith) requires fb + 1 <= fa; }
    } else {
        let (base, d) = if a.resolution == 0 { (a, b) } else { (b, a) };
        // d (resolution >= 1) lies on another face than the base cell
        assert(d.origin_id != base.origin_id) by {
            if d.origin_id == base.origin_id { assert(is_desc(d, base)); }
        }
        let q = anc(d, 1);
        lemma_anc_valid(d, 1);
        lemma_desc_nested(d, q);
        lemma_code6_range(q);
        bv_code_block(code6(q) as u64);
        let cq = code6(q); let f = base.origin_id as int; let g = d.origin_id as int;
        assert(cq / 5 == g);
        if g < f { assert((cq + 1) * 0x0400000000000000 <= 5 * f * 0x0400000000000000) by (nonlinear_arith) requires cq + 1 <= 5 * f; }
        else { assert((5 * f + 5) * 0x0400000000000000 <= cq * 0x0400000000000000) by (nonlinear_arith) requires 5 * f + 5 <= cq; }
        assert(span_hi(q) == span_lo(q) + 0x0400000000000000);
    }
}

/// two non-overlapping cells of resolution >= 1 in ID order have ordered leaf intervals
pub proof fn lemma_pair_ordered(a: A5Cell, b: A5Cell)
    requires valid(a), valid(b), a.resolution >= 1, b.resolution >= 1, enc(a) < enc(b), !overlap(a, b),
    ensures leaf_hi(a) <= leaf_lo(b),
{
    if a.resolution <= b.resolution {
        let b1 = anc(b, a.resolution as int);
        lemma_anc_valid(b, a.resolution as int);
        assert(is_desc(b, b1));
        if enc(b1) < enc(a) {
            thm_desc_order(b1, a, b, a);
        } else if enc(b1) == enc(a) {
            lemma_enc_injective(b1, a);
        }
        lemma_same_res_disjoint(a, b1);
        lemma_desc_nested(b, b1);
    } else {
        let a1 = anc(a, b.resolution as int);
        lemma_anc_valid(a, b.resolution as int);
        assert(is_desc(a, a1));
        if enc(b) < enc(a1) {
            thm_desc_order(b, a1, b, a);
        } else if enc(a1) == enc(b) {
            lemma_enc_injective(a1, b);
        }
        lemma_same_res_disjoint(a1, b);
        lemma_desc_nested(a, a1);
    }
}

/// a scan-ordered list of pairwise non-overlapping valid cells is ordered by leaf intervals
pub proof fn lemma_initial_ordered(l: Seq<u64>)
    requires all_canonical(l), sorted_scan(l), antichain(l),
    ensures ordered(l),                                                                            // [C10:scan-order-is-interval-order]
{
    assert forall|k: int, j: int| 0 <= k < j < l.len() implies leaf_hi(dec(#[trigger] l[k])) <= leaf_lo(dec(#[trigger] l[j])) by {
        lemma_canonical_decodable(l[k]);
        lemma_canonical_decodable(l[j]);
        assert(!overlap(dec(l[k]), dec(l[j])));
        lemma_nonoverlap_disjoint(dec(l[k]), dec(l[j]));
        lemma_key_in_interval(l[k]);
        lemma_key_in_interval(l[j]);
        assert(scan_lt(l[k], l[j]));
    }
}

/// a scan-ordered sequence is determined by its set of elements (order / multiplicity independence)
pub proof fn lemma_sorted_scan_unique(a: Seq<u64>, b: Seq<u64>)
    requires sorted_scan(a), sorted_scan(b), a.to_set() == b.to_set(),
    ensures a == b,                                                                               // [C08:normalised-input-unique]
    decreases a.len(),
{
    if a.len() == 0 {
        if b.len() > 0 { assert(b.to_set().contains(b[0])); assert(a.contains(b[0])); }
        assert(a =~= b);
    } else if b.len() == 0 {
        assert(a.to_set().contains(a[0])); assert(b.contains(a[0]));
    } else {
        let la = a.last(); let lb = b.last();
        assert(a.to_set().contains(la)); assert(b.contains(la));
        assert(b.to_set().contains(lb)); assert(a.contains(lb));
        let ia = choose|k: int| 0 <= k < a.len() && a[k] == lb;
        let ib = choose|k: int| 0 <= k < b.len() && b[k] == la;
        // la is the scan-maximum of a, lb of b, and each occurs in the other list
        if ia < a.len() - 1 { assert(scan_lt(a[ia], a[a.len() - 1])); }
        if ib < b.len() - 1 { assert(scan_lt(b[ib], b[b.len() - 1])); }
        assert(la == lb);
        let a2 = a.drop_last(); let b2 = b.drop_last();
        assert forall|x: u64| a2.to_set().contains(x) <==> b2.to_set().contains(x) by {
            if a2.contains(x) {
                let k = choose|k: int| 0 <= k < a2.len() && a2[k] == x;
                assert(a[k] == x && scan_lt(a[k], a[a.len() - 1]));
                assert(a.to_set().contains(x)); assert(b.contains(x));
                let kb = choose|kb: int| 0 <= kb < b.len() && b[kb] == x;
                assert(kb < b.len() - 1);
                assert(b2[kb] == x);
            }
            if b2.contains(x) {
                let k = choose|k: int| 0 <= k < b2.len() && b2[k] == x;
                assert(b[k] == x && scan_lt(b[k], b[b.len() - 1]));
                assert(b.to_set().contains(x)); assert(a.contains(x));
                let ka = choose|ka: int| 0 <= ka < a.len() && a[ka] == x;
                assert(ka < a.len() - 1);
                assert(a2[ka] == x);
            }
        }
        assert(a2.to_set() =~= b2.to_set());
        lemma_sorted_scan_unique(a2, b2);
        assert(a =~= a2.push(la));
        assert(b =~= b2.push(lb));
    }
}


pub proof fn lemma_scan_lt_trans(x: u64, y: u64, z: u64)
    requires scan_lt(x, y), scan_lt(y, z),
    ensures scan_lt(x, z),
{
}

pub proof fn lemma_key_of_enc(c: A5Cell)
    requires valid(c),
    ensures
        c.resolution >= 1 ==> key_of(enc(c)) == enc(c),
        c.resolution == 0 ==> key_of(enc(c)) == 5 * (c.origin_id as int) * 0x0400000000000000 + 0x0200000000000000,
        c.resolution == -1 ==> key_of(enc(c)) == 0x0200000000000001u64,
{
    lemma_res_of_enc(c);
    if c.resolution == 0 {
        let f = c.origin_id as u64;
        bv_zero_field(f << 58, 58);
        assert(enc(c) == (f << 58) | (1u64 << 57));
        bv_base_key(f);
    }
}

/// in scan order a parent lies strictly between its first and its last child
pub proof fn lemma_parent_between(p: A5Cell)
    requires valid(p), p.resolution <= 28,
    ensures
        scan_lt(enc(sibling(p, 0)), enc(p)),
        scan_lt(enc(p), enc(sibling(p, group_size(p.resolution + 1) - 1))),                        // [C08:parent-between-children]
{
    let k = group_size(p.resolution + 1);
    let first = sibling(p, 0);
    let last = sibling(p, k - 1);
    lemma_sibling_valid(p, 0);
    lemma_sibling_valid(p, k - 1);
    lemma_key_of_enc(p);
    lemma_key_of_enc(first);
    lemma_key_of_enc(last);
    if p.resolution >= 1 {
        // enc(first) < enc(p) < enc(last): p's ID is its span's midpoint, the children tile the span
        lemma_kids_tile(p, 0);
        lemma_kids_tile(p, k - 1);
        thm_subtree_is_span(first, first);
        thm_subtree_is_span(last, last);
        let w = tile_width(p);
        assert(w >= 2) by { if p.resolution >= 2 { lemma_tile_hilbert(p, 0); } else { lemma_stride_bound(2); assert((1u64 << 56) == 0x0100000000000000u64) by (bit_vector); } }
        // span(p) = [lo, lo + 4w), lo + w <= enc(p) <= lo + 2w; first in (lo, lo + w), last in (lo + 3w, lo + 4w)
        lemma_span_midpoint(p);
        assert(4 * w == 2 * w + 2 * w);
        assert((0 + 1) * w == w) by (nonlinear_arith);
        assert((3 + 1) * w == 4 * w && 3 * w == w + w + w) by (nonlinear_arith);
    } else if p.resolution == 0 {
        lemma_code6_range(first);
        lemma_code6_range(last);
        let f = p.origin_id as u64;
        assert(code6(first) == 5 * f && code6(last) == 5 * f + 4);
        assert((1u64 << 1) == 2) by (bit_vector);
        bv_enc_below(code6(first) as u64, 0, 56);
        bv_enc_below(code6(last) as u64, 0, 56);
        bv_zero_field((code6(first) as u64) << 58, 57);
        bv_zero_field((code6(last) as u64) << 58, 57);
        bv_code_block(code6(first) as u64);
        bv_code_block(code6(last) as u64);
        assert((1u64 << 56) == 0x0100000000000000u64) by (bit_vector);
        assert((1u64 << 1) == 2) by (bit_vector);
        bv_enc_fields(code6(first) as u64, 0, 56);
        bv_enc_fields(code6(last) as u64, 0, 56);
        assert(enc(first) == ((code6(first) as u64) << 58) | (1u64 << 56));
        assert(enc(last) == ((code6(last) as u64) << 58) | (1u64 << 56));
        bv_or_marker(code6(first) as u64, 56);
        bv_or_marker(code6(last) as u64, 56);
        assert((5 * f + 4) * 0x0400000000000000 == 5 * f * 0x0400000000000000 + 4 * 0x0400000000000000) by (nonlinear_arith);
    } else {
        // base cells 0 and 11 around the world cell
        assert(5 * 0 * 0x0400000000000000 + 0x0200000000000000 < 0x0200000000000001u64);
        assert(0x0200000000000001u64 < 5 * 11 * 0x0400000000000000 + 0x0200000000000000);
    }
}

pub proof fn bv_or_marker(code: u64, m: u64)
    requires code < 60, m == 56 || m == 57,
    ensures ((code << 58) | (1u64 << m)) == (code << 58) + (1u64 << m), (1u64 << m) < 0x0400000000000000u64,
{
    assert(code < 60 && (m == 56 || m == 57) ==> ((code << 58) | (1u64 << m)) == add(code << 58, 1u64 << m)
        && (1u64 << m) < 0x0400000000000000u64 && (code << 58) <= 0xec00000000000000u64) by (bit_vector);
}

/// the ID of a cell of resolution >= 1 is the midpoint of its span
pub proof fn lemma_span_midpoint(p: A5Cell)
    requires valid(p), 1 <= p.resolution <= 28,
    ensures
        span_lo(p) + tile_width(p) <= enc(p) <= span_lo(p) + 2 * tile_width(p),
        span_hi(p) == span_lo(p) + 4 * tile_width(p),
{
    lemma_kids_tile(p, 0);
    if p.resolution >= 2 {
        lemma_tile_hilbert(p, 0);
        let q = marker_pos(p.resolution as int) as u64;
        // span_lo = enc - 2^q, span_hi = enc + 2^q, width 2^(q+1) = 4 * stride(child) => stride(child) = 2^(q-1)
        assert(q >= 3 && q <= 55 ==> (1u64 << q) == mul(2, 1u64 << sub(q, 1)) && (1u64 << sub(q, 1)) <= 0x0040000000000000u64) by (bit_vector);
        assert(60 - 2 * (p.resolution + 1) == q - 1);
        assert(stride_of(p.resolution + 1) == (1u64 << ((q - 1) as u64)));
    } else {
        lemma_tile_quintant(p, 0);
        lemma_code6_range(p);
        let code = code6(p) as u64;
        assert(p.s == 0);
        bv_zero_field(code << 58, 57);
        bv_or_marker(code, 56);
        assert((1u64 << 56) == 0x0100000000000000u64) by (bit_vector);
        assert(stride_of(2) == 0x0100000000000000u64);
    }
}

/// a merge keeps the list in scan order (for ANY list of valid cells, overlapping or not)
pub proof fn lemma_merge_sorted(cur: Seq<u64>, done: Seq<u64>, i: int, k: int, parent: u64, p: A5Cell)
    requires
        0 <= i, i + k <= cur.len(), k == group_size(p.resolution + 1), valid(p), p.resolution <= 28,
        parent == enc(p),
        forall|jj: int| 0 <= jj < k ==> #[trigger] cur[i + jj] == enc(sibling(p, jj)),
    ensures
        sorted_scan(done + cur.subrange(i, cur.len() as int)) ==> sorted_scan(done.push(parent) + cur.subrange(i + k, cur.len() as int)),   // [C08:merge-keeps-scan-order]
{
    let n = cur.len() as int;
    let c1 = done + cur.subrange(i, n);
    let c2 = done.push(parent) + cur.subrange(i + k, n);
    let dl = done.len() as int;
    if sorted_scan(c1) {
        lemma_parent_between(p);
        assert(c1[dl] == cur[i + 0]);
        assert(c1[dl + k - 1] == cur[i + (k - 1)]);
        assert forall|a: int, b: int| 0 <= a < b < c2.len() implies scan_lt(c2[a], c2[b]) by {
            let a1 = if a < dl { a } else { a + k - 1 };
            let b1 = if b < dl { b } else { b + k - 1 };
            if a != dl && b != dl {
                assert(c2[a] == c1[a1] && c2[b] == c1[b1]);
                assert(scan_lt(c1[a1], c1[b1]));
            } else if a == dl {
                assert(c2[b] == c1[b1]);
                assert(scan_lt(c1[dl + k - 1], c1[b1]));
                lemma_scan_lt_trans(parent, c1[dl + k - 1], c1[b1]);
            } else {
                assert(c2[a] == c1[a1]);
                if a1 < dl { assert(scan_lt(c1[a1], c1[dl])); }
                lemma_scan_lt_trans(c1[a1], c1[dl], parent);
            }
        }
    }
}

pub proof fn lemma_sorted_scan_no_dup(l: Seq<u64>)
    requires sorted_scan(l),
    ensures l.no_duplicates(),
{
    assert forall|a: int, b: int| 0 <= a < l.len() && 0 <= b < l.len() && a != b implies l[a] != l[b] by {
        if a < b { assert(scan_lt(l[a], l[b])); } else { assert(scan_lt(l[b], l[a])); }
    }
}

} // verus!
