// ---- hierarchy functions extracted from src/core/serialization.rs and src/core/cell_info.rs
verus! {

pub fn range_u8_vec(a: u8, b: u8) -> (v: Vec<u8>)
    requires a <= b,
    ensures v@.len() == b - a, forall|k: int| 0 <= k < b - a ==> v@[k] == a + k,
{
    let mut v: Vec<u8> = Vec::new();
    let mut x = a;
    while x < b
        invariant a <= x <= b, v@.len() == x - a, forall|k: int| 0 <= k < x - a ==> v@[k] == a + k,
        decreases b - x,
    {
        v.push(x);
        x += 1;
    }
    v
}

//@extract fn cell_to_parent from src/core/serialization.rs ret=res tags=C07,C14
//@spec
ensures
    !decodable(index) ==> res is Err,                                                                   // [C14:cell_to_parent.rejects-non-cells]
    decodable(index) && !parent_target_ok(dec(index), parent_resolution) ==> res is Err,               // [C14:cell_to_parent.rejects-range]
    decodable(index) && parent_target_ok(dec(index), parent_resolution) ==> res == Ok::<u64, String>(enc(anc(dec(index), parent_target(dec(index), parent_resolution)))),  // [C07,C14:cell_to_parent.value]
//@at after-let cell
proof {
    lemma_enc_dec(index);
}
//@at after-let new_resolution
proof {
    if -1 <= new_resolution <= current_resolution {
        lemma_anc_valid(cell, new_resolution as int);
        lemma_valid_norm(anc(cell, new_resolution as int));
    }
}
//@end

//@extract fn is_first_child from src/core/serialization.rs ret=r tags=C20,C14
//@rewrite "resolution.unwrap_or_else(|| get_resolution(index))" => "(match resolution { Some(v) => v, None => get_resolution(index) })"
//@spec
requires
    resolution is Some ==> resolution->Some_0 <= 29,
ensures
    r == first_child_bits(index, match resolution { Some(v) => v as int, None => res_of(index) }),   // [C20:is_first_child.value]
//@end

//@extract fn get_stride from src/core/serialization.rs ret=r tags=C20,C14
//@spec
requires
    resolution <= 29,
ensures
    r == stride_of(resolution as int),                                                                 // [C20:get_stride.value]
//@end

//@extract fn cell_to_children from src/core/serialization.rs ret=res tags=C07,C14
//@fnattr #[verifier::loop_isolation(false)]
//@rewrite "(0..12).collect()" => "range_u8_vec(0, 12)"
//@spec
ensures
    !decodable(index) ==> res is Err,                                                                   // [C14:cell_to_children.rejects-non-cells]
    decodable(index) && (child_target(dec(index), child_resolution) < dec(index).resolution || child_target(dec(index), child_resolution) > 29) ==> res is Err,   // [C14:cell_to_children.rejects-range]
    res is Ok && child_target(dec(index), child_resolution) == dec(index).resolution ==> res->Ok_0@ == seq![enc(dec(index))],    // [C07,C14:cell_to_children.same-resolution]
    res is Ok && child_target(dec(index), child_resolution) > dec(index).resolution ==> res->Ok_0@ == kids_ids(dec(index), child_target(dec(index), child_resolution)),   // [C07:cell_to_children.value]
    decodable(index) && dec(index).resolution <= child_target(dec(index), child_resolution) <= 29 && kid_levels(dec(index), child_target(dec(index), child_resolution)) <= 8 ==> res is Ok,   // [C07:cell_to_children.total-in-scope]
//@at entry
hide(enc); hide(dec); hide(decodable); hide(res_of); hide(code6);
//@at after-let cell
proof {
    lemma_enc_dec(index);
    lemma_valid_norm(cell);
}
//@at after-let resolution_diff
proof {
    if 0 < resolution_diff <= 20 {
        lemma_pow4_shift(resolution_diff as nat);
        let k = (2 * resolution_diff) as u64;
        assert(k <= 40 ==> (1u64 << k) <= 0x10000000000u64) by (bit_vector);
    }
    assert(ipow(4, 0) == 1);
}
//@at after-let shifted_s
proof {
    assert(resolution_diff == kid_levels(cell, new_resolution as int) || (resolution_diff <= 0 && kid_levels(cell, new_resolution as int) == 0));
    if resolution_diff <= 0 {
        let s0 = s;
        assert(s0 << 0 == s0) by (bit_vector);
    }
    assert(shifted_s == s << ((2 * kid_levels(cell, new_resolution as int)) as u64));
    assert(children_count == kid_count(cell, new_resolution as int));
}
//@loop 1
invariant
    children@ == kids_outer(cell, new_resolution as int, __k_new_origin_id as int),
    new_resolution == 30 ==> __k_new_origin_id == 0,
//@loop 2
invariant
    children@ == kids_outer(cell, new_resolution as int, __k_new_origin_id as int)
        + kids_mid(cell, new_resolution as int, new_origin_id, __k_new_segment as int),
    new_resolution == 30 ==> __k_new_segment == 0,
//@loop 3
invariant
    children@ == kids_outer(cell, new_resolution as int, __k_new_origin_id as int)
        + kids_mid(cell, new_resolution as int, new_origin_id, __k_new_segment as int)
        + kids_inner_n(cell, new_resolution as int, new_origin_id, new_segment, i as int),
    new_resolution == 30 ==> i == 0,
//@at loop 1 body-start
proof {
    assert(new_origin_id == kid_origin(cell, __k_new_origin_id as int));
    assert(new_origin_id < 12);
    assert(new_segments@.len() == kid_n_segments(cell, new_resolution as int));
}
//@at loop 2 body-start
proof {
    assert(new_segment == kid_segment(cell, new_resolution as int, __k_new_segment as int));
    assert(new_segment < 5);
    assert(children@ =~= kids_outer(cell, new_resolution as int, __k_new_origin_id as int)
        + kids_mid(cell, new_resolution as int, new_origin_id, __k_new_segment as int)
        + kids_inner_n(cell, new_resolution as int, new_origin_id, new_segment, 0));
}
//@at loop 3 body-start
proof {
    lemma_child_s(cell, new_resolution as int, i as int);
}
//@at loop 3 body-end
proof {
    assert(children@ =~= kids_outer(cell, new_resolution as int, __k_new_origin_id as int)
        + kids_mid(cell, new_resolution as int, new_origin_id, __k_new_segment as int)
        + kids_inner_n(cell, new_resolution as int, new_origin_id, new_segment, i as int + 1));
}
//@at loop 3 after
proof {
    assert(children@ =~= kids_outer(cell, new_resolution as int, __k_new_origin_id as int)
        + kids_mid(cell, new_resolution as int, new_origin_id, __k_new_segment as int + 1));
}
//@at loop 2 after
proof {
    assert(children@ =~= kids_outer(cell, new_resolution as int, __k_new_origin_id as int + 1));
}
//@end

//@extract fn get_res0_cells from src/core/serialization.rs ret=res tags=C07,C14
//@spec
ensures
    res is Ok,                                                                     // [C07:get_res0_cells.total]
    res->Ok_0@ == kids_ids(world(), 0),                                            // [C07:get_res0_cells.value]
//@at entry
proof {
    lemma_res_of_enc(world());
    lemma_dec_enc(world());
    assert(kid_levels(world(), 0) == 0);
}
//@end

//@extract const AUTHALIC_AREA from src/core/cell_info.rs
//@end

//@extract fn get_num_cells from src/core/cell_info.rs ret=r tags=C04,C14
//@spec
ensures
    resolution < 0 ==> r == 0,                                                     // [C04:get_num_cells.negative]
    resolution == 0 ==> r == 12,                                                   // [C04:get_num_cells.base]
    1 <= resolution <= 27 ==> r == 60 * ipow(4, (resolution - 1) as nat),          // [C04:get_num_cells.exact]
    28 <= resolution <= 29 ==> r >= 1 && close_to(r as int, 60 * ipow(4, (resolution - 1) as nat)),   // [C04:get_num_cells.rounded]
    resolution >= 0 ==> r >= 1,
//@at entry
proof {
    if 1 <= resolution <= 31 {
        lemma_pow4_shift((resolution - 1) as nat);
        let k = (2 * (resolution - 1)) as u64;
        assert(k <= 52 ==> (1u64 << k) <= 0x10000000000000u64) by (bit_vector);
        assert((1u64 << 54) == 0x40000000000000u64) by (bit_vector);
        assert((1u64 << 56) == 0x100000000000000u64) by (bit_vector);
    }
    if resolution >= 1 { lemma_ipow_pos(4, (resolution - 1) as nat); }
}
//@end

//@extract fn get_num_children from src/core/cell_info.rs ret=r tags=C09,C14
//@spec
requires
    -1 <= parent_resolution <= 29,
    -1 <= child_resolution <= 29,
ensures
    child_resolution < parent_resolution ==> r == 0,
    child_resolution == parent_resolution ==> r == 1,
    child_resolution >= parent_resolution ==> r >= 1,
    parent_resolution <= child_resolution <= 27 ==> r == fan(parent_resolution as int, child_resolution as int),   // [C09:get_num_children.fanout]
    parent_resolution >= 2 && parent_resolution <= child_resolution ==> r == fan(parent_resolution as int, child_resolution as int),
//@at entry
proof {
    if child_resolution > parent_resolution {
        lemma_pow4_shift((child_resolution - parent_resolution) as nat);
        let k = (2 * (child_resolution - parent_resolution)) as u64;
        assert(k <= 62 ==> (1u64 << k) <= 0x4000000000000000u64 && (1u64 << k) >= 1) by (bit_vector);
        if child_resolution >= 1 { lemma_pow4_shift((child_resolution - 1) as nat); }
        if child_resolution >= 1 { assert(fan(0, child_resolution as int) == 5 * fan(1, child_resolution as int)); }
        assert(ipow(4, 0) == 1);
        if child_resolution >= 1 { lemma_ipow_pos(4, (child_resolution - 1) as nat); }
    }
}
//@at before-tail
proof {
    let c = child_resolution as int;
    let p = parent_resolution as int;
    assert(p < 2 && c > p);
    if c >= 1 {
        let k = ipow(4, (c - 1) as nat);
        lemma_ipow_pos(4, (c - 1) as nat);
        assert(fan(1, c) == k) by { if c == 1 { assert(ipow(4, 0) == 1); } }
        assert(fan(0, c) == 5 * k);
        assert(fan(-1, c) == 12 * fan(0, c));
        if c <= 27 {
            assert(child_count == 60 * k);
            if p == 0 { assert((60 * k) / 12 == 5 * k); }
            if p == 1 { assert(parent_count == 60); assert((60 * k) / 60 == k) by (nonlinear_arith) requires k >= 1; }
        } else {
            // JS-rounded literals: the quotient is still >= 1
            assert(child_count >= 60);
        }
        assert(parent_count == 1 || parent_count == 12 || parent_count == 60);
        assert(child_count as int / parent_count as int >= 1) by (nonlinear_arith)
            requires child_count >= 60, 1 <= parent_count <= 60;
    } else {
        assert(c == 0 && p == -1);
        assert(fan(-1, 0) == 12 * fan(0, 0));
    }
}
//@end

} // verus!
