verus! {

impl A5Cell {
//@extract fn origin from src/core/utils.rs impl=A5Cell ret=r tags=C14
//@spec
requires
    self.origin_id < 12,
ensures
    *r == get_origins_spec()[self.origin_id as int],
    origins_ok(get_origins_spec()),
//@end
}

//@extract fn get_pentagon from src/core/cell.rs ret=res tags=C14,C11
//@rewrite "let s_u64 = cell\n        .s\n        .to_string()\n        .parse::<u64>()\n        .map_err(|_| \"Failed to convert BigInt to u64\")?;" => "let s_u64 = cell.s;"
//@spec
requires
    valid(*cell), cell.resolution >= 0,
ensures
    res is Ok,                                                                 // [C14:get_pentagon.total]
    res->Ok_0.nverts() == (if cell.resolution == 1 { 3nat } else { 5nat }),  // [C11:get_pentagon.vertex-count]
//@at entry
proof {
    if cell.resolution >= 2 {
        let k = (2 * (cell.resolution - 1)) as u64;
        assert(k <= 56 ==> (1u64 << k) >= 1) by (bit_vector);
    }
}
//@end

//@extract fn cell_to_lonlat from src/core/cell.rs ret=res tags=C14
//@rewrite "let dodecahedron = DodecahedronProjection::get_thread_local();" => ""
//@rewrite "dodecahedron.inverse(" => "dodecahedron_inverse("
//@spec
ensures
    !decodable(cell) ==> res is Err,                                          // [C14:cell_to_lonlat.rejects-non-cells]
//@at entry
proof {
    lemma_res_of_enc(world());
}
//@at after-let cell_data
proof {
    lemma_enc_dec(cell);
}
//@end

//@extract struct CellToBoundaryOptions from src/core/cell.rs
//@end

//@extract fn cell_to_boundary from src/core/cell.rs ret=res tags=C14,C11
//@fnattr #[verifier::loop_isolation(false)]
//@rewrite "let dodecahedron = DodecahedronProjection::get_thread_local();" => ""
//@rewrite "dodecahedron.inverse(" => "dodecahedron_inverse("
//@rewrite "let opts = options.unwrap_or_default();" => "let opts = match options { Some(o) => o, None => CellToBoundaryOptions { closed_ring: true, segments: None } };"
//@rewrite? "let segments = opts.segments.unwrap_or_else(|| max_i32(1, 2_i32.pow((6 - cell_data.resolution).max(0) as u32)));" => "let segments = match opts.segments { Some(v) => v, None => max_i32(1, 2_i32.pow(max_i32(6 - cell_data.resolution, 0) as u32)) };"
//@rewrite? "let segments = opts.segments.unwrap_or_else(|| { max_i32(1, 2_i32.pow((6 - cell_data.resolution).max(0) as u32)) });" => "let segments = match opts.segments { Some(v) => v, None => max_i32(1, 2_i32.pow(max_i32(6 - cell_data.resolution, 0) as u32)) };"
//@rewrite "segments.max(1) as usize" => "max_i32(segments, 1) as usize"
//@rewrite "for vertex in vertices {\n        let unprojected = dodecahedron_inverse(*vertex, cell_data.origin_id)?;" => "for __kv in 0..vertices.len() {\n        let vertex = &vertices[__kv];\n        let unprojected = dodecahedron_inverse(*vertex, cell_data.origin_id)?;"
//@rewrite "for vertex in unprojected_vertices {" => "for __ku in 0..unprojected_vertices.len() {\n        let vertex = unprojected_vertices[__ku];"
//@rewrite "normalized_boundary.reverse();" => "vec_reverse_lonlat(&mut normalized_boundary);"
//@spec
ensures
    !decodable(cell_id) ==> res is Err,                                        // [C14:cell_to_boundary.rejects-non-cells]
    res is Ok && res_of(cell_id) == -1 ==> res->Ok_0@.len() == 0,
    res is Ok && res_of(cell_id) >= 0 ==> res->Ok_0@.len() == ring_len(dec(cell_id), options),   // [C11:cell_to_boundary.ring-length]
    res is Ok && res_of(cell_id) >= 0 && ring_closed(options) ==> res->Ok_0@[0] == res->Ok_0@[res->Ok_0@.len() - 1],   // [C11:cell_to_boundary.ring-closed]
//@at entry
proof {
    lemma_res_of_enc(world());
}
//@at after-let cell_data
proof {
    lemma_enc_dec(cell_id);
    lemma_res_range(cell_id, 29);
    reveal_with_fuel(ipow, 9);
    assert(ipow(2, 0) == 1 && ipow(2, 1) == 2 && ipow(2, 2) == 4 && ipow(2, 3) == 8 && ipow(2, 4) == 16
        && ipow(2, 5) == 32 && ipow(2, 6) == 64 && ipow(2, 7) == 128);
}
//@at after-let vertices
proof {
    let k = pentagon.nverts() as int;
    let m = (if segments <= 1 { 1int } else { segments as int });
    assert(k * m >= 3) by (nonlinear_arith) requires k >= 3, m >= 1;
    assert(vertices@.len() == k * m);
}
//@loop 1
invariant
    unprojected_vertices@.len() == __kv,
//@loop 2
invariant
    boundary@.len() == __ku,
//@end

//@extract fn a5cell_contains_point from src/core/cell.rs ret=res tags=C14
//@rewrite "let dodecahedron = DodecahedronProjection::get_thread_local();" => ""
//@rewrite "dodecahedron.forward(" => "dodecahedron_forward("
//@rewrite "use {get_face_vertices, get_quintant_vertices};" => ""
//@spec
requires
    valid(*cell), cell.resolution >= 0,
//@end

//@extract fn lonlat_to_estimate from src/core/cell.rs ret=res tags=C14
//@rewrite "let dodecahedron = DodecahedronProjection::get_thread_local();" => ""
//@rewrite "dodecahedron.forward(" => "dodecahedron_forward("
//@rewrite "let extra_angle = 2.0 * PI_OVER_5.get() * quintant as f64;\n        let cos_angle = (-extra_angle).cos();\n        let sin_angle = (-extra_angle).sin();\n        let rotated_x = cos_angle * dodec_point.x() - sin_angle * dodec_point.y();\n        let rotated_y = sin_angle * dodec_point.x() + cos_angle * dodec_point.y();\n        dodec_point = Face::new(rotated_x, rotated_y);" => "dodec_point = rotate_into_fifth(dodec_point, quintant);"
//@rewrite "let scale_factor = 2.0_f64.powi(hilbert_resolution);" => "let scale_factor = f_pow2(hilbert_resolution);"
//@rewrite "dodec_point = Face::new(\n        dodec_point.x() * scale_factor,\n        dodec_point.y() * scale_factor,\n    );" => "dodec_point = f_scale_face(dodec_point, scale_factor);"
//@spec
requires
    0 <= resolution <= 29,
ensures
    res is Ok ==> res->Ok_0.origin_id < 12 && res->Ok_0.segment < 5 && res->Ok_0.resolution == resolution,   // [C14:lonlat_to_estimate.fields]
//@end

//@extract fn lonlat_to_cell from src/core/cell.rs ret=res tags=C14
//@fnattr #[verifier::loop_isolation(false)]
//@rewrite "!(0..MAX_RESOLUTION).contains(&resolution)" => "!(0 <= resolution && resolution < MAX_RESOLUTION)"
//@rewrite "let scale = 50.0 / 2.0_f64.powi(hilbert_resolution);" => "let scale = f_scale(hilbert_resolution);"
//@rewrite "let r = (i as f64 / n as f64) * scale;\n        let coordinate = LonLat::new(\n            lonlat.longitude() + (i as f64).cos() * r,\n            lonlat.latitude() + (i as f64).sin() * r,\n        );" => "let coordinate = f_sample(lonlat, i, n, scale);"
//@rewrite "let mut estimate_set = HashSet::new();" => "let mut estimate_set = KeySet::new();"
//@rewrite "for sample in samples {" => "for __ks in 0..samples.len() {\n        let sample = samples[__ks];"
//@rewrite "unique_estimates.push(estimate.clone());" => "unique_estimates.push(cell_clone(&estimate));"
//@rewrite "let mut cells = Vec::new();" => "let mut cells: Vec<(A5Cell, f64)> = Vec::new();"
//@rewrite "let mut unique_estimates = Vec::new();" => "let mut unique_estimates: Vec<A5Cell> = Vec::new();"
//@rewrite? "cells.sort_by(|a, b| b.1.partial_cmp(&a.1).unwrap_or(std::cmp::Ordering::Equal));" => "sort_cells_by_distance(&mut cells);"
//@rewrite? "cells.sort_by(|a, b| { b.1.partial_cmp(&a.1).unwrap_or(std::cmp::Ordering::Equal) });" => "sort_cells_by_distance(&mut cells);"
//@spec
ensures
    (resolution < -1 || resolution > 29) ==> res is Err,                           // [C14:lonlat_to_cell.rejects-range]
    res is Ok ==> canonical(res->Ok_0) && res_of(res->Ok_0) == resolution,         // [C14:lonlat_to_cell.valid-result]
//@at entry
proof {
    lemma_res_of_enc(world());
    assert(valid(world()));
}
//@at after-let estimate #1
proof {
    lemma_norm_valid(estimate);
    lemma_res_of_enc(norm(estimate));
}
//@loop 1
invariant
    samples@.len() == 1 + i,
//@loop 2
invariant
    samples@.len() == 26,
    forall|k: int| 0 <= k < cells@.len() ==> (#[trigger] cells@[k]).0.origin_id < 12 && cells@[k].0.segment < 5
        && cells@[k].0.resolution == resolution && cells@[k].0.s < s_limit(resolution as int),
    __ks == 0 ==> estimate_set@ == Set::<u64>::empty(),
    __ks >= 1 ==> cells@.len() >= 1,
//@at after-let estimate_key
proof {
    assert(ser_defined(estimate));
    lemma_norm_valid(estimate);
    lemma_res_of_enc(norm(estimate));
    assert(valid(estimate));
}
//@at before "sort_cells_by_distance(&mut cells);"
let ghost before = cells@;
//@at before-tail
proof {
    let c0 = cells@[0];
    assert(before.contains(c0));
    let j = choose|j: int| 0 <= j < before.len() && before[j] == c0;
    assert(before[j].0.origin_id < 12);
    lemma_norm_valid(c0.0);
    lemma_res_of_enc(norm(c0.0));
}
//@end

} // verus!
