//# tags=C07
// ---- hierarchy specification (C07/C09/C20), written from the property statements
verus! {

pub open spec fn ipow(b: int, e: nat) -> int
    decreases e,
{ if e == 0 { 1 } else { b * ipow(b, (e - 1) as nat) } }

// R4: std integer pow under an assumed contract; the no-overflow precondition is an obligation at each call site
pub assume_specification [usize::pow] (b: usize, e: u32) -> (r: usize)
    requires ipow(b as int, e as nat) <= usize::MAX,
    ensures r == ipow(b as int, e as nat);
pub assume_specification [u64::pow] (b: u64, e: u32) -> (r: u64)
    requires ipow(b as int, e as nat) <= u64::MAX,
    ensures r == ipow(b as int, e as nat);

pub assume_specification [u64::saturating_pow] (b: u64, e: u32) -> (r: u64)
    ensures r == (if ipow(b as int, e as nat) <= u64::MAX { ipow(b as int, e as nat) } else { u64::MAX as int });
// (u64::saturating_mul: vstd ships its specification)

pub proof fn lemma_ipow_pos(b: int, e: nat)
    requires b >= 1,
    ensures ipow(b, e) >= 1,
    decreases e,
{
    if e > 0 {
        lemma_ipow_pos(b, (e - 1) as nat);
        assert(b * ipow(b, (e - 1) as nat) >= 1) by (nonlinear_arith) requires b >= 1, ipow(b, (e - 1) as nat) >= 1;
    }
}

pub proof fn lemma_pow4_shift(d: nat)
    requires d <= 31,
    ensures ipow(4, d) == (1u64 << ((2 * d) as u64)), ipow(4, d) >= 1,
    decreases d,
{
    if d == 0 {
        assert((1u64 << 0) == 1) by (bit_vector);
    } else {
        lemma_pow4_shift((d - 1) as nat);
        let k = (2 * (d - 1)) as u64;
        assert(k <= 60 ==> (1u64 << add(k, 2)) == mul(4, 1u64 << k) && (1u64 << k) <= 0x1000000000000000u64) by (bit_vector);
    }
}

/// the parent one level up (12 base cells under the world cell, 5 quintants per base cell, 4 per level after)
pub open spec fn parent1(c: A5Cell) -> A5Cell {
    if c.resolution >= 3 {
        A5Cell { origin_id: c.origin_id, segment: c.segment, s: c.s / 4, resolution: (c.resolution - 1) as i32 }
    } else if c.resolution == 2 {
        A5Cell { origin_id: c.origin_id, segment: c.segment, s: 0u64, resolution: 1i32 }
    } else if c.resolution == 1 {
        A5Cell { origin_id: c.origin_id, segment: 0usize, s: 0u64, resolution: 0i32 }
    } else {
        world()
    }
}

/// ancestor of c at resolution r (closed form; lemma_anc_step shows it is the iterated parent)
pub open spec fn anc(c: A5Cell, r: int) -> A5Cell {
    if r >= c.resolution { c }
    else if r <= -1 { world() }
    else {
        A5Cell {
            origin_id: c.origin_id,
            segment: if r == 0 { 0usize } else { c.segment },
            s: if r < 2 { 0u64 } else { c.s >> ((2 * (c.resolution - r)) as u64) },
            resolution: r as i32,
        }
    }
}

/// target resolution of cell_to_parent (default: one level up)
pub open spec fn parent_target(c: A5Cell, pr: Option<i32>) -> int {
    match pr { Some(v) => v as int, None => c.resolution - 1 }
}

pub open spec fn parent_target_ok(c: A5Cell, pr: Option<i32>) -> bool {
    -1 <= parent_target(c, pr) <= c.resolution
}

/// ID distance between consecutive siblings of resolution r
pub open spec fn stride_of(r: int) -> u64 { if r < 2 { 1u64 << 58 } else { 1u64 << ((60 - 2 * r) as u64) } }

/// bit-level test "x is the first (lowest-ID) child of its parent" for an ID of resolution r
pub open spec fn first_child_bits(x: u64, r: int) -> bool {
    if r < 2 { top6(x) % (if r == 0 { 12int } else { 5int }) == 0 }
    else { x & (3u64 << ((60 - 2 * r) as u64)) == 0 }
}

/// |a - b| <= b * 1e-15  (the two JS-rounded literals of get_num_cells)
pub open spec fn close_to(a: int, b: int) -> bool {
    (a - b) * 1000000000000000 <= b && (b - a) * 1000000000000000 <= b
}

/// hierarchy fan-out between resolutions p <= t
pub open spec fn fan(p: int, t: int) -> int
    decreases 2 - p,
{
    if t <= p { 1 }
    else if p <= -1 { 12 * fan(0, t) }
    else if p == 0 { 5 * fan(1, t) }
    else { ipow(4, (t - p) as nat) }
}

/// d is a descendant of c (or c itself)
pub open spec fn is_desc(d: A5Cell, c: A5Cell) -> bool {
    valid(d) && d.resolution >= c.resolution && anc(d, c.resolution as int) == c
}

// ------------------------------------------------------------------------------------------
// the children sequence exactly as the reference release lists it (face-major, then segment 0..4,
// then curve position)
// ------------------------------------------------------------------------------------------
pub open spec fn kid_levels(c: A5Cell, t: int) -> int {
    let base = if c.resolution >= 1 { c.resolution as int } else { 1 };
    if t - base <= 0 { 0 } else { t - base }
}

pub open spec fn kid_count(c: A5Cell, t: int) -> int { ipow(4, kid_levels(c, t) as nat) }

pub open spec fn kid_n_origins(c: A5Cell) -> int { if c.resolution == -1 { 12 } else { 1 } }

pub open spec fn kid_origin(c: A5Cell, k: int) -> u8 { if c.resolution == -1 { k as u8 } else { c.origin_id } }

pub open spec fn kid_n_segments(c: A5Cell, t: int) -> int {
    if (c.resolution == -1 && t > 0) || c.resolution == 0 { 5 } else { 1 }
}

pub open spec fn kid_segment(c: A5Cell, t: int, k: int) -> usize {
    if (c.resolution == -1 && t > 0) || c.resolution == 0 { k as usize } else { c.segment }
}

pub open spec fn kid_cell(c: A5Cell, t: int, o: u8, seg: usize, i: int) -> A5Cell {
    norm(A5Cell {
        origin_id: o,
        segment: seg,
        s: ((c.s << ((2 * kid_levels(c, t)) as u64)) + i) as u64,
        resolution: t as i32,
    })
}

pub open spec fn kids_inner_n(c: A5Cell, t: int, o: u8, seg: usize, n: int) -> Seq<u64> {
    Seq::new(n as nat, |i: int| enc(kid_cell(c, t, o, seg, i)))
}

pub open spec fn kids_inner(c: A5Cell, t: int, o: u8, seg: usize) -> Seq<u64> {
    kids_inner_n(c, t, o, seg, kid_count(c, t))
}

/// target resolution of cell_to_children (default: one level down)
pub open spec fn child_target(c: A5Cell, cr: Option<i32>) -> int {
    match cr { Some(v) => v as int, None => c.resolution + 1 }
}

pub open spec fn kids_mid(c: A5Cell, t: int, o: u8, n: int) -> Seq<u64>
    decreases n,
{
    if n <= 0 { Seq::empty() } else { kids_mid(c, t, o, n - 1) + kids_inner(c, t, o, kid_segment(c, t, n - 1)) }
}

pub open spec fn kids_outer(c: A5Cell, t: int, n: int) -> Seq<u64>
    decreases n,
{
    if n <= 0 { Seq::empty() }
    else { kids_outer(c, t, n - 1) + kids_mid(c, t, kid_origin(c, n - 1), kid_n_segments(c, t)) }
}

/// IDs of the children of c at resolution t > c.resolution
pub open spec fn kids_ids(c: A5Cell, t: int) -> Seq<u64> { kids_outer(c, t, kid_n_origins(c)) }


// ------------------------------------------------------------------------------------------
// ancestor lemmas (C07: ancestor lookup composes; every cell has exactly one parent)
// ------------------------------------------------------------------------------------------
pub proof fn bv_shift_bound(s: u64, a: u64, k: u64)
    requires k <= a, a <= 56, s < (1u64 << a),
    ensures (s >> k) < (1u64 << ((a - k) as u64)),
{
    assert(k <= a && a <= 56 && s < (1u64 << a) ==> (s >> k) < (1u64 << sub(a, k))) by (bit_vector);
}

pub proof fn lemma_anc_valid(c: A5Cell, r: int)
    requires valid(c), -1 <= r <= c.resolution,
    ensures
        valid(anc(c, r)),                                                           // [C07:ancestor-valid]
        anc(c, r).resolution == r,
        r >= 2 ==> (c.s >> ((2 * (c.resolution - r)) as u64)) < s_limit(r),
{
    if r >= 2 && r < c.resolution {
        bv_shift_bound(c.s, (2 * c.resolution - 2) as u64, (2 * (c.resolution - r)) as u64);
    }
    if r >= 2 && r == c.resolution {
        let s0 = c.s;
        assert(s0 >> 0 == s0) by (bit_vector);
    }
    if 0 <= r < 2 { assert(s_limit(r) == 1); }
}

pub proof fn lemma_anc_step(c: A5Cell, r: int)
    requires valid(c), -1 <= r < c.resolution,
    ensures anc(c, r) == parent1(anc(c, r + 1)),                                    // [C07:ancestor-is-iterated-parent]
{
    let a = anc(c, r + 1);
    if r + 1 >= 3 {
        if r + 1 < c.resolution {
            let k = (2 * (c.resolution - r - 1)) as u64;
            let s = c.s;
            assert(k <= 60 ==> (s >> k) / 4 == s >> add(k, 2)) by (bit_vector);
        } else {
            let s = c.s;
            assert(s / 4 == s >> 2) by (bit_vector);
        }
    }
}

pub proof fn lemma_anc_compose(c: A5Cell, a: int, b: int)
    requires valid(c), -1 <= b <= a <= c.resolution,
    ensures anc(anc(c, a), b) == anc(c, b),                                         // [C07:ancestor-composes]
{
    if b >= 2 && b < a && a < c.resolution {
        bv_shr_even(c.s, (c.resolution - a) as u64, (a - b) as u64);
    }
}


pub proof fn bv_child_s(s: u64, a: u64, k: u64, i: u64)
    requires a + k <= 58, s < (1u64 << a), i < (1u64 << k),
    ensures
        (s << k) + i < (1u64 << ((a + k) as u64)),
        (1u64 << ((a + k) as u64)) <= 0x0400000000000000u64,
{
    assert(add(a, k) <= 58 && a <= 58 && k <= 58 && s < (1u64 << a) && i < (1u64 << k) ==>
        (s << k) < (1u64 << add(a, k)) && add(s << k, i) < (1u64 << add(a, k)) && add(s << k, i) >= (s << k)
        && (1u64 << add(a, k)) <= 0x0400000000000000u64 && i < 0x0400000000000000u64) by (bit_vector);
}

/// the curve position of the i-th child fits its resolution (and the exec addition cannot overflow)
pub proof fn lemma_child_s(c: A5Cell, t: int, i: int)
    requires valid(c), c.resolution < t <= 30, kid_levels(c, t) <= 20, 0 <= i < kid_count(c, t),
    ensures
        (c.s << ((2 * kid_levels(c, t)) as u64)) + i < 0x0400000000000000u64,
        t >= 2 ==> (c.s << ((2 * kid_levels(c, t)) as u64)) + i < (1u64 << ((2 * t - 2) as u64)),
        t < 2 ==> (c.s << ((2 * kid_levels(c, t)) as u64)) + i == 0,
{
    let lv = kid_levels(c, t);
    lemma_pow4_shift(lv as nat);
    let k = (2 * lv) as u64;
    if c.resolution >= 2 {
        bv_child_s(c.s, (2 * c.resolution - 2) as u64, k, i as u64);
    } else {
        assert(c.s == 0);
        assert((1u64 << 0) == 1) by (bit_vector);
        bv_child_s(c.s, 0, k, i as u64);
    }
}

} // verus!
