//# tags=C05
// ---- codec specification, written from the property statements (C05/C20), not from /repo
verus! {

pub open spec fn world() -> A5Cell { A5Cell { origin_id: 0u8, segment: 0usize, s: 0u64, resolution: (-1i32) } }

/// bit position of the single marker bit of a resolution-r ID (r in 0..=29; 58 for the world cell)
pub open spec fn marker_pos(r: int) -> int { if r < 2 { 57 - r } else { 59 - 2 * r } }

/// number of curve positions of a quintant at resolution r >= 2 is 4^(r-1) = 2^(2r-2)
pub open spec fn s_limit(r: int) -> u64 { if r < 2 { 1 } else { 1u64 << ((2 * r - 2) as u64) } }

pub open spec fn valid(c: A5Cell) -> bool {
    if c.resolution == -1 {
        c.origin_id == 0 && c.segment == 0 && c.s == 0
    } else {
        &&& 0 <= c.resolution <= 29
        &&& c.origin_id < 12
        &&& c.segment < 5
        &&& (c.resolution == 0 ==> c.segment == 0)
        &&& c.s < s_limit(c.resolution as int)
    }
}

/// 6-bit face/quintant code: face (r = 0) or 5*face + quintant-relative-to-first-quintant
pub open spec fn code6(c: A5Cell) -> int {
    if c.resolution == 0 { c.origin_id as int }
    else { 5 * (c.origin_id as int) + ((c.segment as int) + 5 - FQ(c.origin_id as int)) % 5 }
}

/// the documented layout: 6 bits code, 2 bits per curve level, one marker bit, zeros
pub open spec fn enc(c: A5Cell) -> u64 {
    if c.resolution == -1 { 0 }
    else {
        let p = marker_pos(c.resolution as int) as u64;
        ((code6(c) as u64) << 58) | (c.s << ((p + 1) as u64)) | (1u64 << p)
    }
}

pub open spec fn bit(x: u64, p: int) -> bool { (x >> (p as u64)) & 1 == 1 }

/// resolution read from an ID: the finest resolution whose marker position is set
pub open spec fn probe(x: u64, r: int) -> int
    decreases r + 1,
{
    if r <= -1 { -1 } else if bit(x, marker_pos(r)) { r } else { probe(x, r - 1) }
}

pub open spec fn res_of(x: u64) -> int { probe(x, 29) }

pub open spec fn top6(x: u64) -> int { (x >> 58) as int }

pub open spec fn dec_origin(x: u64) -> int { if res_of(x) == 0 { top6(x) } else { top6(x) / 5 } }

/// an ID decodes iff it is the world cell (or an alias of it) or its face code is < 12
pub open spec fn decodable(x: u64) -> bool { res_of(x) == -1 || dec_origin(x) < 12 }

pub open spec fn dec(x: u64) -> A5Cell {
    let r = res_of(x);
    if r == -1 { world() }
    else {
        let o = dec_origin(x);
        A5Cell {
            origin_id: o as u8,
            segment: if r == 0 { 0usize } else { ((top6(x) + FQ(o)) % 5) as usize },
            s: if r < 2 { 0u64 } else { (x & 0x03ffffffffffffffu64) >> ((60 - 2 * r) as u64) },
            resolution: r as i32,
        }
    }
}

/// cells on which serialize is defined (everything else must be rejected with Err)
pub open spec fn ser_defined(c: A5Cell) -> bool {
    -1 <= c.resolution <= 29 && (c.resolution >= 2 ==> c.s < s_limit(c.resolution as int))
}

/// the fields serialize ignores, cleared
pub open spec fn norm(c: A5Cell) -> A5Cell {
    if c.resolution == -1 { world() }
    else {
        A5Cell {
            origin_id: c.origin_id,
            segment: if c.resolution == 0 { 0usize } else { c.segment },
            s: if c.resolution < 2 { 0u64 } else { c.s },
            resolution: c.resolution,
        }
    }
}

/// x is the ID of some valid cell
pub open spec fn canonical(x: u64) -> bool { exists|c: A5Cell| valid(c) && enc(c) == x }

// ------------------------------------------------------------------------------------------
// bit-vector facts
// ------------------------------------------------------------------------------------------
pub proof fn bv_shr_step(x: u64, a: u64, b: u64)
    requires b == 1 || b == 2, a + b < 64,
    ensures (x >> a) >> b == x >> ((a + b) as u64),
{
    assert(a < 63 ==> (x >> a) >> 1 == x >> add(a, 1)) by (bit_vector);
    assert(a < 62 ==> (x >> a) >> 2 == x >> add(a, 2)) by (bit_vector);
}

pub proof fn bv_shr_even(x: u64, a: u64, b: u64)
    requires a + b <= 28,
    ensures (x >> ((2 * a) as u64)) >> ((2 * b) as u64) == x >> ((2 * (a + b)) as u64),
{
    assert(a <= 28 && b <= 28 && add(a, b) <= 28 ==> (x >> mul(2, a)) >> mul(2, b) == x >> mul(2, add(a, b))) by (bit_vector);
}

pub proof fn bv_ser_fields(code: u64, s: u64, hb: u64)
    requires code < 64, hb <= 56, s < (1u64 << hb),
    ensures
        (code << 58) <= 0xfc00000000000000u64,
        (s << ((58 - hb) as u64)) < 0x0400000000000000u64,
        ((code << 58) + (s << ((58 - hb) as u64))) as u64 == (code << 58) | (s << ((58 - hb) as u64)),
{
    assert(code < 64 && hb <= 56 && s < (1u64 << hb) ==>
        (code << 58) <= 0xfc00000000000000u64
        && (s << sub(58, hb)) < 0x0400000000000000u64
        && add(code << 58, s << sub(58, hb)) == (code << 58) | (s << sub(58, hb))) by (bit_vector);
}

pub proof fn bv_zero_field(x: u64, k: u64)
    requires k < 64,
    ensures (0u64 << k) == 0, x | 0 == x,
{
    assert(k < 64 ==> (0u64 << k) == 0) by (bit_vector);
    assert(x | 0 == x) by (bit_vector);
}

} // verus!
