//# tags=C08
// ---- C08/C10: compaction specification (covered set, sibling groups), from the property statements
verus! {

/// the canonical ID a decodable bit pattern aliases
pub open spec fn canon(x: u64) -> u64 { enc(dec(x)) }

pub open spec fn all_decodable(l: Seq<u64>) -> bool { forall|k: int| 0 <= k < l.len() ==> decodable(#[trigger] l[k]) }

/// canonical forms of the first n entries, as a set
pub open spec fn canon_seq(l: Seq<u64>, n: int) -> Seq<u64> { Seq::new(n as nat, |j: int| canon(l[j])) }

pub open spec fn canon_set(l: Seq<u64>, n: int) -> Set<u64> { canon_seq(l, n).to_set() }

pub proof fn lemma_canon_set_mem(l: Seq<u64>, n: int)
    requires 0 <= n <= l.len(),
    ensures forall|v: u64| #[trigger] canon_set(l, n).contains(v) <==> (exists|j: int| 0 <= j < n && v == canon(#[trigger] l[j])),
{
    assert forall|v: u64| #[trigger] canon_set(l, n).contains(v) <==> (exists|j: int| 0 <= j < n && v == canon(#[trigger] l[j])) by {
        if canon_set(l, n).contains(v) {
            assert(canon_seq(l, n).contains(v));
            let j = choose|j: int| 0 <= j < canon_seq(l, n).len() && canon_seq(l, n)[j] == v;
            assert(v == canon(l[j]));
        }
        if exists|j: int| 0 <= j < n && v == canon(#[trigger] l[j]) {
            let j = choose|j: int| 0 <= j < n && v == canon(#[trigger] l[j]);
            assert(canon_seq(l, n)[j] == v);
            assert(canon_seq(l, n).contains(v));
        }
    }
}

pub open spec fn all_canonical(l: Seq<u64>) -> bool { forall|k: int| 0 <= k < l.len() ==> canonical(#[trigger] l[k]) }

pub open spec fn max_res_le(l: Seq<u64>, m: int) -> bool { forall|k: int| 0 <= k < l.len() ==> res_of(#[trigger] l[k]) <= m }

/// cell y lies in the region described by the list (y is one of the cells, or below one of them)
pub open spec fn covers(l: Seq<u64>, y: A5Cell) -> bool {
    exists|k: int| 0 <= k < l.len() && is_desc(y, dec(#[trigger] l[k]))
}

pub open spec fn overlap(a: A5Cell, b: A5Cell) -> bool { is_desc(a, b) || is_desc(b, a) }

/// non-overlapping as a set of cells (equal IDs are the same cell)
pub open spec fn antichain_set(l: Seq<u64>) -> bool {
    forall|k: int, j: int| 0 <= k < l.len() && 0 <= j < l.len() && l[k] != l[j] ==> !overlap(dec(#[trigger] l[k]), dec(#[trigger] l[j]))
}

/// non-overlapping as a list (in particular no duplicates)
pub open spec fn antichain(l: Seq<u64>) -> bool {
    forall|k: int, j: int| 0 <= k < l.len() && 0 <= j < l.len() && k != j ==> !overlap(dec(#[trigger] l[k]), dec(#[trigger] l[j]))
}

pub open spec fn sorted_strict(l: Seq<u64>) -> bool { forall|k: int, j: int| 0 <= k < j < l.len() ==> l[k] < l[j] }

/// number of siblings in the group of a cell of resolution r >= 0
pub open spec fn group_size(r: int) -> int { if r >= 2 { 4 } else if r == 0 { 12 } else { 5 } }

/// j-th sibling (in ID order) of the group whose parent is p, at resolution r = p.resolution + 1
pub open spec fn sibling(p: A5Cell, j: int) -> A5Cell {
    if p.resolution >= 1 {
        A5Cell { origin_id: p.origin_id, segment: p.segment, s: if p.resolution == 1 { j as u64 } else { (4 * p.s + j) as u64 }, resolution: (p.resolution + 1) as i32 }
    } else if p.resolution == 0 {
        A5Cell { origin_id: p.origin_id, segment: ((j + FQ(p.origin_id as int)) % 5) as usize, s: 0u64, resolution: 1i32 }
    } else {
        A5Cell { origin_id: j as u8, segment: 0usize, s: 0u64, resolution: 0i32 }
    }
}

// ------------------------------------------------------------------------------------------
// bit-level facts about sibling IDs
// ------------------------------------------------------------------------------------------
pub proof fn bv_sibling_hilbert(code: u64, s: u64, p: u64, j: u64)
    requires code < 60, p < 56, s < (1u64 << ((57 - p) as u64)), j < 4,
        (((code << 58) | (s << ((p + 1) as u64)) | (1u64 << p)) & (3u64 << ((p + 1) as u64))) == 0,
    ensures
        s & 3 == 0,
        s + j < (1u64 << ((57 - p) as u64)),
        ((code << 58) | (s << ((p + 1) as u64)) | (1u64 << p)) + j * (1u64 << ((p + 1) as u64))
            == ((code << 58) | (((s + j) as u64) << ((p + 1) as u64)) | (1u64 << p)),
{
    assert(code < 60 && p < 56 && s < (1u64 << sub(57, p)) && j < 4
        && (((code << 58) | (s << add(p, 1)) | (1u64 << p)) & (3u64 << add(p, 1))) == 0 ==>
        s & 3 == 0 && add(s, j) < (1u64 << sub(57, p)) && add(s, j) >= s
        && (1u64 << sub(57, p)) <= 0x0200000000000000u64
        && (1u64 << add(p, 1)) <= 0x0100000000000000u64
        && mul(j, 1u64 << add(p, 1)) <= 0x0300000000000000u64
        && ((code << 58) | (s << add(p, 1)) | (1u64 << p)) < 0xf000000000000000u64
        && mul(j, 1u64 << add(p, 1)) <= sub(0xffffffffffffffffu64, (code << 58) | (s << add(p, 1)) | (1u64 << p))
        && add((code << 58) | (s << add(p, 1)) | (1u64 << p), mul(j, 1u64 << add(p, 1)))
            == ((code << 58) | (add(s, j) << add(p, 1)) | (1u64 << p))) by (bit_vector);
    assert(j * (1u64 << ((p + 1) as u64)) == mul(j, 1u64 << ((p + 1) as u64))) by (nonlinear_arith)
        requires j < 4, (1u64 << ((p + 1) as u64)) <= 0x0100000000000000u64;
}

pub proof fn bv_sibling_coarse(code: u64, j: u64, m: u64)
    requires code < 60, j < 12, code + j < 60, m == 56 || m == 57,
    ensures
        ((code << 58) | (1u64 << m)) + j * (1u64 << 58) == ((((code + j) as u64) << 58) | (1u64 << m)),
        (((code << 58) | (1u64 << m)) >> 58) == code,
{
    assert(code < 60 && j < 12 && add(code, j) < 60 && (m == 56 || m == 57) ==>
        add((code << 58) | (1u64 << m), mul(j, 1u64 << 58)) == ((add(code, j) << 58) | (1u64 << m))
        && mul(j, 1u64 << 58) <= sub(0xffffffffffffffffu64, (code << 58) | (1u64 << m))
        && (((code << 58) | (1u64 << m)) >> 58) == code
        && mul(j, 1u64 << 58) <= 0x2c00000000000000u64
        && ((code << 58) | (1u64 << m)) < 0xf000000000000000u64
        && (1u64 << 58) == 0x0400000000000000u64) by (bit_vector);
    assert(j * (1u64 << 58) == mul(j, 1u64 << 58)) by (nonlinear_arith)
        requires j < 12, (1u64 << 58) == 0x0400000000000000u64;
}

pub proof fn bv_s_div4(s: u64, j: u64)
    requires s & 3 == 0, j < 4, s <= 0x0100000000000000u64,
    ensures (s + j) / 4 == s / 4, 4 * (s / 4) == s,
{
    assert(s & 3 == 0 && j < 4 && s <= 0x0100000000000000u64 ==> add(s, j) / 4 == s / 4 && mul(4, s / 4) == s && add(s, j) >= s) by (bit_vector);
}

/// the sibling group of a first child: the k IDs cell + j*stride are exactly the k children of the parent
pub proof fn lemma_sibling_group(cell: u64, j: int)
    requires
        canonical(cell), res_of(cell) >= 0, first_child_bits(cell, res_of(cell)),
        0 <= j < group_size(res_of(cell)),
    ensures
        cell + j * stride_of(res_of(cell)) <= u64::MAX,
        valid(sibling(parent1(dec(cell)), j)),
        sibling(parent1(dec(cell)), j).resolution == res_of(cell),
        parent1(sibling(parent1(dec(cell)), j)) == parent1(dec(cell)),
        cell + j * stride_of(res_of(cell)) == enc(sibling(parent1(dec(cell)), j)),     // [C20:siblings-equally-spaced]
        j == 0 ==> sibling(parent1(dec(cell)), 0) == dec(cell),
{
    lemma_canonical_decodable(cell);
    lemma_dec_res(cell);
    let c = dec(cell);
    let r = c.resolution as int;
    assert(r == res_of(cell));
    lemma_code6_range(c);
    let code = code6(c) as u64;
    let p = parent1(c);
    let sb = sibling(p, j);
    let mp0 = marker_pos(r) as u64;
    if r >= 2 { assert(57 - mp0 == 2 * r - 2); } else { assert(c.s == 0); assert((1u64 << 1) == 2) by (bit_vector); assert((1u64 << 0) == 1) by (bit_vector); }
    bv_enc_fields(code, c.s, mp0);
    assert(top6(cell) == code);
    if r >= 2 {
        let mp = marker_pos(r) as u64;
        assert(57 - mp == 2 * r - 2);
        assert(60 - 2 * r == mp + 1);
        bv_sibling_hilbert(code, c.s, mp, j as u64);
        assert((1u64 << ((57 - mp) as u64)) <= 0x0100000000000000u64) by (bit_vector) requires mp >= 1, mp < 56;
        bv_s_div4(c.s, j as u64);
        if r == 2 { assert(c.s < 4) by { assert((1u64 << 2) == 4) by (bit_vector); } }
        assert(sb.s == c.s + j);
        assert(code6(sb) == code6(c));
    } else if r == 1 {
        assert(c.s == 0);
        assert(code % 5 == 0);
        bv_sibling_coarse(code, j as u64, 56);
        bv_zero_field(code << 58, 57);
        bv_zero_field(((code + j) as u64) << 58, 57);
        assert(code6(sb) == code + j);
    } else {
        assert(c.s == 0);
        assert(code % 12 == 0 && code < 12);
        bv_sibling_coarse(code, j as u64, 57);
        bv_zero_field(code << 58, 58);
        bv_zero_field(((code + j) as u64) << 58, 58);
        assert(code6(sb) == j);
    }
}

/// every child of the parent is one of the siblings
pub proof fn lemma_siblings_complete(p: A5Cell, d: A5Cell) -> (j: int)
    requires valid(p), p.resolution <= 28, valid(d), d.resolution == p.resolution + 1, parent1(d) == p,
    ensures 0 <= j < group_size(d.resolution as int), d == sibling(p, j),
{
    if p.resolution >= 2 {
        let s = d.s;
        assert(s == 4 * (s / 4) + (s % 4));
        (d.s % 4) as int
    } else if p.resolution == 1 {
        assert(d.s < 4) by { assert((1u64 << 2) == 4) by (bit_vector); }
        d.s as int
    } else if p.resolution == 0 {
        ((d.segment + 5 - FQ(p.origin_id as int)) % 5) as int
    } else {
        d.origin_id as int
    }
}

pub proof fn lemma_sibling_parent(p: A5Cell, j: int)
    requires valid(p), p.resolution <= 28, 0 <= j < group_size(p.resolution + 1),
    ensures parent1(sibling(p, j)) == p, sibling(p, j).resolution == p.resolution + 1,
{
    if p.resolution >= 2 {
        let k = (2 * p.resolution - 2) as u64;
        assert(k <= 54 ==> (1u64 << k) <= 0x40000000000000u64) by (bit_vector);
        assert((4 * p.s + j) / 4 == p.s);
    } else if p.resolution >= 0 {
        assert(p.s < 1);
    }
}

/// a cell finer than p lies below p iff it lies below one of p's children (the sibling group)
pub proof fn lemma_group_cover_fwd(p: A5Cell, y: A5Cell) -> (j: int)
    requires valid(p), p.resolution <= 28, valid(y), y.resolution > p.resolution, is_desc(y, p),
    ensures 0 <= j < group_size(p.resolution + 1), is_desc(y, sibling(p, j)),
{
    let r = p.resolution + 1;
    let d = anc(y, r);
    lemma_anc_valid(y, r);
    lemma_anc_step(y, r - 1);
    assert(parent1(d) == p);
    let j = lemma_siblings_complete(p, d);
    j
}

pub proof fn lemma_group_cover_bwd(p: A5Cell, y: A5Cell, j: int)
    requires valid(p), p.resolution <= 28, valid(y), 0 <= j < group_size(p.resolution + 1), is_desc(y, sibling(p, j)),
    ensures is_desc(y, p),
{
    let r = p.resolution + 1;
    lemma_sibling_parent(p, j);
    lemma_anc_step(y, r - 1);
}


pub proof fn lemma_sibling_valid(p: A5Cell, j: int)
    requires valid(p), p.resolution <= 28, 0 <= j < group_size(p.resolution + 1),
    ensures valid(sibling(p, j)), is_desc(sibling(p, j), p), dec(enc(sibling(p, j))) == sibling(p, j), res_of(enc(sibling(p, j))) == p.resolution + 1,
{
    let d = sibling(p, j);
    if p.resolution >= 1 {
        let k = (2 * p.resolution - 2) as u64;
        if p.resolution >= 2 {
            let ps = p.s;
            assert(k <= 54 && ps < (1u64 << k) ==> (1u64 << add(k, 2)) == mul(4, 1u64 << k) && (1u64 << k) <= 0x40000000000000u64
                && add(mul(4, ps), 3) < (1u64 << add(k, 2)) && mul(4, ps) <= 0x0100000000000000u64) by (bit_vector);
        } else {
            assert((1u64 << 2) == 4) by (bit_vector);
        }
    }
    lemma_sibling_parent(p, j);
    lemma_anc_step(d, p.resolution as int);
    lemma_dec_enc(d);
    lemma_res_of_enc(d);
}

/// if a cell overlaps the parent it overlaps one of the children
pub proof fn lemma_overlap_parent(p: A5Cell, e: A5Cell) -> (j: int)
    requires valid(p), p.resolution <= 28, valid(e), overlap(p, e),
    ensures 0 <= j < group_size(p.resolution + 1), overlap(sibling(p, j), e),
{
    if is_desc(e, p) && e.resolution > p.resolution {
        lemma_group_cover_fwd(p, e)
    } else {
        // e is p or an ancestor of p: every child lies below e
        lemma_sibling_valid(p, 0);
        let d = sibling(p, 0);
        lemma_anc_compose(d, p.resolution as int, e.resolution as int);
        0
    }
}

pub proof fn lemma_covers_concat(a: Seq<u64>, b: Seq<u64>, y: A5Cell)
    ensures covers(a + b, y) <==> (covers(a, y) || covers(b, y)),
{
    if covers(a + b, y) {
        let k = choose|k: int| 0 <= k < (a + b).len() && is_desc(y, dec(#[trigger] (a + b)[k]));
        if k < a.len() { assert(is_desc(y, dec(a[k]))); } else { assert(is_desc(y, dec(b[k - a.len()]))); }
    }
    if covers(a, y) {
        let k = choose|k: int| 0 <= k < a.len() && is_desc(y, dec(#[trigger] a[k]));
        assert((a + b)[k] == a[k]);
    }
    if covers(b, y) {
        let k = choose|k: int| 0 <= k < b.len() && is_desc(y, dec(#[trigger] b[k]));
        assert((a + b)[a.len() + k] == b[k]);
    }
}

pub open spec fn at(l: Seq<u64>, base: int, jj: int) -> u64 { l[base + jj] }

pub proof fn lemma_stride_bound(r: int)
    requires 0 <= r <= 29,
    ensures stride_of(r) <= 0x0400000000000000u64, stride_of(r) >= 1,
{
    if r >= 2 {
        let k = (60 - 2 * r) as u64;
        assert(k <= 56 ==> (1u64 << k) <= 0x0100000000000000u64 && (1u64 << k) >= 1) by (bit_vector);
    } else {
        assert((1u64 << 58) == 0x0400000000000000u64) by (bit_vector);
    }
}

pub open spec fn merge_pre(cur: Seq<u64>, done: Seq<u64>, i: int, k: int, parent: u64, p: A5Cell) -> bool {
    &&& 0 <= i && i + k <= cur.len() && k == group_size(p.resolution + 1) && valid(p) && p.resolution <= 28
    &&& parent == enc(p)
    &&& forall|jj: int| 0 <= jj < k ==> #[trigger] cur[i + jj] == enc(sibling(p, jj))
    &&& all_canonical(done + cur.subrange(i, cur.len() as int))
}

/// facts shared by the merge lemmas: the k entries decode to the siblings; everything else keeps its place
pub proof fn lemma_merge_facts(cur: Seq<u64>, done: Seq<u64>, i: int, k: int, parent: u64, p: A5Cell)
    requires merge_pre(cur, done, i, k, parent, p),
    ensures
        ({ let comb = done + cur.subrange(i, cur.len() as int);
           let comb2 = done.push(parent) + cur.subrange(i + k, cur.len() as int);
           let dl = done.len() as int;
           &&& forall|jj: int| 0 <= jj < k ==> #[trigger] at(comb, dl, jj) == enc(sibling(p, jj)) && res_of(at(comb, dl, jj)) == p.resolution + 1
                   && dec(at(comb, dl, jj)) == sibling(p, jj)
           &&& forall|a: int| 0 <= a < comb2.len() && a != dl ==> #[trigger] comb2[a] == comb[if a < dl { a } else { a + k - 1 }]
           &&& comb2[dl] == parent && comb2.len() == comb.len() - k + 1 && comb.len() >= dl + k
           &&& canonical(parent) && dec(parent) == p && res_of(parent) == p.resolution
           &&& res_of(comb[dl]) == p.resolution + 1 }),
{
    let n = cur.len() as int;
    let comb = done + cur.subrange(i, n);
    let dl = done.len() as int;
    lemma_dec_enc(p);
    lemma_res_of_enc(p);
    assert forall|jj: int| 0 <= jj < k implies #[trigger] at(comb, dl, jj) == enc(sibling(p, jj)) && res_of(at(comb, dl, jj)) == p.resolution + 1
        && dec(at(comb, dl, jj)) == sibling(p, jj) by {
        assert(comb[dl + jj] == cur[i + jj]);
        lemma_sibling_valid(p, jj);
    }
    assert(res_of(at(comb, dl, 0)) == p.resolution + 1);
    assert(at(comb, dl, 0) == comb[dl]);
}

pub proof fn lemma_merge_canon(cur: Seq<u64>, done: Seq<u64>, i: int, k: int, parent: u64, p: A5Cell)
    requires merge_pre(cur, done, i, k, parent, p),
    ensures
        all_canonical(done.push(parent) + cur.subrange(i + k, cur.len() as int)),
        forall|m: int| max_res_le(done + cur.subrange(i, cur.len() as int), m)
            ==> max_res_le(done.push(parent) + cur.subrange(i + k, cur.len() as int), m),
{
    let n = cur.len() as int;
    let comb = done + cur.subrange(i, n);
    let comb2 = done.push(parent) + cur.subrange(i + k, n);
    let dl = done.len() as int;
    lemma_merge_facts(cur, done, i, k, parent, p);
    assert forall|a: int| 0 <= a < comb2.len() implies canonical(#[trigger] comb2[a]) by {
        if a != dl { assert(canonical(comb[if a < dl { a } else { a + k - 1 }])); }
    }
    assert forall|m: int| max_res_le(comb, m) implies max_res_le(comb2, m) by {
        assert forall|a: int| 0 <= a < comb2.len() implies res_of(#[trigger] comb2[a]) <= m by {
            if a != dl { assert(res_of(comb[if a < dl { a } else { a + k - 1 }]) <= m); }
            else { assert(res_of(comb[dl]) <= m); }
        }
    }
}

pub proof fn lemma_merge_cover(cur: Seq<u64>, done: Seq<u64>, i: int, k: int, parent: u64, p: A5Cell)
    requires merge_pre(cur, done, i, k, parent, p),
    ensures
        forall|y: A5Cell| valid(y) && max_res_le(done + cur.subrange(i, cur.len() as int), y.resolution as int)
            ==> (covers(done.push(parent) + cur.subrange(i + k, cur.len() as int), y)
                 <==> covers(done + cur.subrange(i, cur.len() as int), y)),                       // [C08:merge-preserves-cover]
{
    let n = cur.len() as int;
    let comb = done + cur.subrange(i, n);
    let comb2 = done.push(parent) + cur.subrange(i + k, n);
    let dl = done.len() as int;
    lemma_merge_facts(cur, done, i, k, parent, p);
    assert forall|y: A5Cell| valid(y) && max_res_le(comb, y.resolution as int)
        implies (covers(comb2, y) <==> covers(comb, y)) by {
        assert(res_of(comb[dl]) <= y.resolution);
        assert(y.resolution > p.resolution);
        if covers(comb2, y) {
            let a = choose|a: int| 0 <= a < comb2.len() && is_desc(y, dec(#[trigger] comb2[a]));
            if a == dl {
                let jj = lemma_group_cover_fwd(p, y);
                assert(dec(at(comb, dl, jj)) == sibling(p, jj));
                assert(is_desc(y, dec(comb[dl + jj])));
            } else {
                assert(is_desc(y, dec(comb[if a < dl { a } else { a + k - 1 }])));
            }
        }
        if covers(comb, y) {
            let a = choose|a: int| 0 <= a < comb.len() && is_desc(y, dec(#[trigger] comb[a]));
            if dl <= a < dl + k {
                let jj = a - dl;
                assert(dec(at(comb, dl, jj)) == sibling(p, jj));
                lemma_group_cover_bwd(p, y, jj);
                assert(is_desc(y, dec(comb2[dl])));
            } else {
                let a2 = if a < dl { a } else { a - k + 1 };
                assert(comb2[a2] == comb[a]);
                assert(is_desc(y, dec(comb2[a2])));
            }
        }
    }
}

pub proof fn lemma_merge_antichain(cur: Seq<u64>, done: Seq<u64>, i: int, k: int, parent: u64, p: A5Cell)
    requires merge_pre(cur, done, i, k, parent, p), antichain(done + cur.subrange(i, cur.len() as int)),
    ensures antichain(done.push(parent) + cur.subrange(i + k, cur.len() as int)),                // [C08:merge-preserves-antichain]
{
    let n = cur.len() as int;
    let comb = done + cur.subrange(i, n);
    let comb2 = done.push(parent) + cur.subrange(i + k, n);
    let dl = done.len() as int;
    lemma_merge_facts(cur, done, i, k, parent, p);
    assert forall|a: int, b: int| 0 <= a < comb2.len() && 0 <= b < comb2.len() && a != b
        implies !overlap(dec(#[trigger] comb2[a]), dec(#[trigger] comb2[b])) by {
        let a1 = if a < dl { a } else { a + k - 1 };
        let b1 = if b < dl { b } else { b + k - 1 };
        if a != dl && b != dl {
            assert(comb2[a] == comb[a1] && comb2[b] == comb[b1]);
            assert(!overlap(dec(comb[a1]), dec(comb[b1])));
        } else {
            let o = if a == dl { b } else { a };
            let o1 = if o < dl { o } else { o + k - 1 };
            assert(comb2[o] == comb[o1]);
            let e = dec(comb[o1]);
            assert(canonical(comb[o1]));
            lemma_canonical_decodable(comb[o1]);
            if overlap(p, e) {
                let jj = lemma_overlap_parent(p, e);
                assert(dec(at(comb, dl, jj)) == sibling(p, jj));
                assert(!overlap(dec(comb[dl + jj]), dec(comb[o1])));
                assert(false);
            }
        }
    }
}

/// one merge of compact(): k adjacent entries that are exactly the children of p are replaced by p
pub proof fn lemma_merge_step(cur: Seq<u64>, done: Seq<u64>, i: int, k: int, parent: u64, p: A5Cell)
    requires merge_pre(cur, done, i, k, parent, p),
    ensures
        all_canonical(done.push(parent) + cur.subrange(i + k, cur.len() as int)),
        forall|m: int| max_res_le(done + cur.subrange(i, cur.len() as int), m)
            ==> max_res_le(done.push(parent) + cur.subrange(i + k, cur.len() as int), m),
        forall|y: A5Cell| valid(y) && max_res_le(done + cur.subrange(i, cur.len() as int), y.resolution as int)
            ==> (covers(done.push(parent) + cur.subrange(i + k, cur.len() as int), y)
                 <==> covers(done + cur.subrange(i, cur.len() as int), y)),
        antichain(done + cur.subrange(i, cur.len() as int))
            ==> antichain(done.push(parent) + cur.subrange(i + k, cur.len() as int)),
{
    lemma_merge_canon(cur, done, i, k, parent, p);
    lemma_merge_cover(cur, done, i, k, parent, p);
    if antichain(done + cur.subrange(i, cur.len() as int)) { lemma_merge_antichain(cur, done, i, k, parent, p); }
}

/// keeping an entry: the combined list does not change
pub proof fn lemma_keep_step(cur: Seq<u64>, done: Seq<u64>, i: int)
    requires 0 <= i < cur.len(),
    ensures done.push(cur[i]) + cur.subrange(i + 1, cur.len() as int) =~= done + cur.subrange(i, cur.len() as int),
{
}

pub proof fn lemma_antichain_no_dup(l: Seq<u64>)
    requires all_canonical(l), antichain(l),
    ensures l.no_duplicates(),                                                                    // [C08:no-duplicates]
{
    assert forall|a: int, b: int| 0 <= a < l.len() && 0 <= b < l.len() && a != b implies l[a] != l[b] by {
        if l[a] == l[b] {
            lemma_canonical_decodable(l[a]);
            assert(overlap(dec(l[a]), dec(l[b])));
        }
    }
}

/// a strictly sorted sequence is determined by its set of elements (order / multiplicity independence)
pub proof fn lemma_sorted_unique(a: Seq<u64>, b: Seq<u64>)
    requires sorted_strict(a), sorted_strict(b), a.to_set() == b.to_set(),
    ensures a == b,                                                                               // [C08:normalised-input-unique]
    decreases a.len(),
{
    if a.len() == 0 {
        if b.len() > 0 { assert(b.to_set().contains(b[0])); assert(a.contains(b[0])); }
        assert(a =~= b);
    } else if b.len() == 0 {
        assert(a.to_set().contains(a[0])); assert(b.contains(a[0]));
    } else {
        // the largest elements coincide; drop them
        let la = a.last(); let lb = b.last();
        assert(a.to_set().contains(la)); assert(b.contains(la));
        assert(b.to_set().contains(lb)); assert(a.contains(lb));
        let ia = choose|k: int| 0 <= k < a.len() && a[k] == lb;
        let ib = choose|k: int| 0 <= k < b.len() && b[k] == la;
        assert(la == lb);
        let a2 = a.drop_last(); let b2 = b.drop_last();
        assert forall|x: u64| a2.to_set().contains(x) <==> b2.to_set().contains(x) by {
            if a2.contains(x) {
                let k = choose|k: int| 0 <= k < a2.len() && a2[k] == x;
                assert(a[k] == x && x < la);
                assert(a.to_set().contains(x)); assert(b.contains(x));
                let kb = choose|kb: int| 0 <= kb < b.len() && b[kb] == x;
                assert(kb < b.len() - 1);
                assert(b2[kb] == x);
            }
            if b2.contains(x) {
                let k = choose|k: int| 0 <= k < b2.len() && b2[k] == x;
                assert(b[k] == x && x < lb);
                assert(b.to_set().contains(x)); assert(a.contains(x));
                let ka = choose|ka: int| 0 <= ka < a.len() && a[ka] == x;
                assert(ka < a.len() - 1);
                assert(a2[ka] == x);
            }
        }
        assert(a2.to_set() =~= b2.to_set());
        lemma_sorted_unique(a2, b2);
        assert(a =~= a2.push(la));
        assert(b =~= b2.push(lb));
    }
}


/// the de-duplicated, sorted working list (canonical forms of the inputs) describes the same set of cells as the input
pub proof fn lemma_initial_list(cells: Seq<u64>, cur: Seq<u64>)
    requires all_decodable(cells), cur.to_set() == canon_set(cells, cells.len() as int), cur.no_duplicates(),
    ensures
        all_canonical(cur),
        forall|m: int| max_res_le(cells, m) ==> max_res_le(cur, m),
        forall|y: A5Cell| covers(cur, y) <==> covers(cells, y),
        antichain_set(cells) ==> antichain(cur),
{
    lemma_canon_set_mem(cells, cells.len() as int);
    // every entry of cur is the canonical form of some input, and vice versa
    assert forall|k: int| 0 <= k < cur.len() implies
        exists|j: int| 0 <= j < cells.len() && #[trigger] cur[k] == canon(#[trigger] cells[j]) by {
        assert(cur.to_set().contains(cur[k]));
        assert(canon_set(cells, cells.len() as int).contains(cur[k]));
    }
    assert forall|j: int| 0 <= j < cells.len() implies cur.contains(canon(#[trigger] cells[j])) by {
        assert(canon_set(cells, cells.len() as int).contains(canon(cells[j])));
        assert(cur.to_set().contains(canon(cells[j])));
    }
    assert forall|j: int| 0 <= j < cells.len() implies
        canonical(canon(#[trigger] cells[j])) && dec(canon(cells[j])) == dec(cells[j]) && res_of(canon(cells[j])) == res_of(cells[j]) by {
        lemma_enc_dec(cells[j]);
        lemma_dec_res(cells[j]);
        lemma_res_of_enc(dec(cells[j]));
    }
    assert forall|k: int| 0 <= k < cur.len() implies canonical(#[trigger] cur[k]) by {
        let j = choose|j: int| 0 <= j < cells.len() && cur[k] == canon(#[trigger] cells[j]);
    }
    assert forall|m: int| max_res_le(cells, m) implies max_res_le(cur, m) by {
        assert forall|k: int| 0 <= k < cur.len() implies res_of(#[trigger] cur[k]) <= m by {
            let j = choose|j: int| 0 <= j < cells.len() && cur[k] == canon(#[trigger] cells[j]);
            assert(res_of(cells[j]) <= m);
        }
    }
    assert forall|y: A5Cell| covers(cur, y) <==> covers(cells, y) by {
        if covers(cur, y) {
            let k = choose|k: int| 0 <= k < cur.len() && is_desc(y, dec(#[trigger] cur[k]));
            let j = choose|j: int| 0 <= j < cells.len() && cur[k] == canon(#[trigger] cells[j]);
            assert(is_desc(y, dec(cells[j])));
        }
        if covers(cells, y) {
            let k = choose|k: int| 0 <= k < cells.len() && is_desc(y, dec(#[trigger] cells[k]));
            assert(cur.contains(canon(cells[k])));
            let j = choose|j: int| 0 <= j < cur.len() && cur[j] == canon(cells[k]);
            assert(is_desc(y, dec(cur[j])));
        }
    }
    if antichain_set(cells) {
        assert forall|a: int, b: int| 0 <= a < cur.len() && 0 <= b < cur.len() && a != b
            implies !overlap(dec(#[trigger] cur[a]), dec(#[trigger] cur[b])) by {
            let ja = choose|j: int| 0 <= j < cells.len() && cur[a] == canon(#[trigger] cells[j]);
            let jb = choose|j: int| 0 <= j < cells.len() && cur[b] == canon(#[trigger] cells[j]);
            assert(cur[a] != cur[b]);
            assert(cells[ja] != cells[jb]);
            assert(!overlap(dec(cells[ja]), dec(cells[jb])));
        }
    }
}

/// for a list of canonical IDs the canonical forms are the IDs themselves
pub proof fn lemma_canon_set_of_canonical(l: Seq<u64>)
    requires all_canonical(l),
    ensures canon_set(l, l.len() as int) == l.to_set(), all_decodable(l),
{
    assert forall|j: int| 0 <= j < l.len() implies canon(#[trigger] l[j]) == l[j] && decodable(l[j]) by {
        lemma_canonical_decodable(l[j]);
    }
    lemma_canon_set_mem(l, l.len() as int);
    assert forall|v: u64| canon_set(l, l.len() as int).contains(v) <==> l.to_set().contains(v) by {
        if canon_set(l, l.len() as int).contains(v) {
            let j = choose|j: int| 0 <= j < l.len() && v == canon(#[trigger] l[j]);
            assert(l[j] == v);
        }
        if l.contains(v) {
            let j = choose|j: int| 0 <= j < l.len() && l[j] == v;
            assert(v == canon(l[j]));
        }
    }
    assert(canon_set(l, l.len() as int) =~= l.to_set());
}

/// what compact()'s sibling test establishes: the k entries are exactly the children of the parent
pub proof fn lemma_merge_setup(cur: Seq<u64>, i: int, cell: u64, parent: u64)
    requires
        canonical(cell), res_of(cell) >= 0, first_child_bits(cell, res_of(cell)),
        0 <= i, i + group_size(res_of(cell)) <= cur.len(), cur[i] == cell,
        forall|jj: int| 1 <= jj < group_size(res_of(cell)) ==> #[trigger] cur[i + jj] == cell + jj * stride_of(res_of(cell)),
        parent == enc(anc(dec(cell), res_of(cell) - 1)),
    ensures
        valid(parent1(dec(cell))), parent1(dec(cell)).resolution == res_of(cell) - 1, parent1(dec(cell)).resolution <= 28,
        parent == enc(parent1(dec(cell))),
        group_size(res_of(cell)) == group_size(parent1(dec(cell)).resolution + 1),
        forall|jj: int| 0 <= jj < group_size(res_of(cell)) ==> #[trigger] cur[i + jj] == enc(sibling(parent1(dec(cell)), jj)),   // [C08:group-is-children-of-parent]
{
    lemma_canonical_decodable(cell);
    lemma_dec_res(cell);
    let c = dec(cell);
    let r = res_of(cell);
    lemma_anc_valid(c, r - 1);
    lemma_anc_step(c, r - 1);
    assert forall|jj: int| 0 <= jj < group_size(r) implies #[trigger] cur[i + jj] == enc(sibling(parent1(c), jj)) by {
        lemma_sibling_group(cell, jj);
        if jj == 0 { assert(cell + 0 * stride_of(r) == cell); }
    }
}

pub proof fn lemma_maxres_transfer(cur: Seq<u64>, done: Seq<u64>, i: int, k: int, parent: u64)
    requires 0 <= i, k >= 1, i + k <= cur.len(),
    ensures
        forall|m: int| max_res_le(cur, m) && max_res_le(done + cur.subrange(i, cur.len() as int), m) ==> max_res_le(done + cur.subrange(i, cur.len() as int), m),
{
}


} // verus!
