//# tags=C09
// ---- C09: uncompact returns, per input cell in input order, exactly its descendants at the target
verus! {

/// what one input contributes: itself when already at the target resolution, else its children there
pub open spec fn self_or_kids(x: u64, t: int) -> Seq<u64> {
    if res_of(x) == t { seq![enc(dec(x))] } else { kids_ids(dec(x), t) }
}

pub open spec fn flat(l: Seq<u64>, t: int, n: int) -> Seq<u64>
    decreases n,
{
    if n <= 0 { Seq::empty() } else { flat(l, t, n - 1) + self_or_kids(l[n - 1], t) }
}

pub open spec fn sum_fan(l: Seq<u64>, t: int, n: int) -> int
    decreases n,
{
    if n <= 0 { 0 } else { sum_fan(l, t, n - 1) + fan(res_of(l[n - 1]), t) }
}

/// scope of C09/C14: bounded fan-out per input (4^8) and a list that fits memory
pub open spec fn uncompact_scope(l: Seq<u64>, t: int) -> bool {
    l.len() <= 0x10000000000 && forall|i: int| 0 <= i < l.len() ==> fan(res_of(#[trigger] l[i]), t) <= 65536
}

pub proof fn lemma_dec_res(x: u64)
    ensures decodable(x) ==> dec(x).resolution == res_of(x), -1 <= res_of(x) <= 29,
{
    lemma_res_range(x, 29);
}

pub proof fn lemma_fan_lower(p: int, t: int)
    requires -1 <= p <= t <= 29,
    ensures
        p < t ==> fan(p, t) >= 4,
        fan(p, t) >= 1,
        fan(p, t) <= 65536 ==> (t <= 27 || p >= 2) && t - (if p >= 1 { p } else { 1 }) <= 8,
{
    let base = if p >= 1 { p } else { 1 };
    let lv = if t - base > 0 { t - base } else { 0 };
    lemma_pow4_shift(lv as nat);
    let k = (2 * lv) as u64;
    assert(k <= 56 && k >= 18 ==> (1u64 << k) >= 0x40000u64) by (bit_vector);
    assert(k >= 2 && k <= 56 ==> (1u64 << k) >= 4) by (bit_vector);
    assert(ipow(4, 0) == 1);
    if p < t {
        if p >= 1 { assert(fan(p, t) == ipow(4, lv as nat)); }
        else if p == 0 { assert(fan(0, t) == 5 * fan(1, t)); if t > 1 { assert(fan(1, t) == ipow(4, lv as nat)); } }
        else { assert(fan(-1, t) == 12 * fan(0, t)); if t > 0 { assert(fan(0, t) == 5 * fan(1, t)); if t > 1 { assert(fan(1, t) == ipow(4, lv as nat)); } } }
    }
}

/// C09: per input - outputs are exactly the descendants at the target, once each, fan-out many
pub proof fn thm_self_or_kids(x: u64, t: int)
    requires canonical(x), res_of(x) <= t <= 29,
    ensures
        self_or_kids(x, t).no_duplicates(),                                                          // [C09:outputs-distinct]
        self_or_kids(x, t).len() == fan(res_of(x), t),                                               // [C09:fanout-length]
        forall|y: u64| #[trigger] self_or_kids(x, t).contains(y) ==> canonical(y) && res_of(y) == t
            && anc(dec(y), res_of(x)) == dec(x),                                                     // [C09:outputs-are-descendants]
        forall|d: A5Cell| is_kid(dec(x), t, d) ==> self_or_kids(x, t).contains(#[trigger] enc(d)),   // [C09:all-descendants-returned]
{
    lemma_canonical_decodable(x);
    let c = dec(x);
    lemma_res_of_enc(c);
    if res_of(x) == t {
        assert(enc(dec(x)) == x);
        assert(self_or_kids(x, t) =~= seq![x]);
        assert(fan(t, t) == 1);
        assert forall|y: u64| #[trigger] self_or_kids(x, t).contains(y) implies canonical(y) && res_of(y) == t
            && anc(dec(y), res_of(x)) == dec(x) by { assert(y == x); }
        assert forall|d: A5Cell| is_kid(c, t, d) implies self_or_kids(x, t).contains(#[trigger] enc(d)) by {
            assert(d == c);
            assert(seq![x][0] == x);
        }
    } else {
        thm_kids_exact(c, t);
        thm_kids_distinct(c, t);
        thm_kids_len(c, t);
        assert forall|y: u64| #[trigger] self_or_kids(x, t).contains(y) implies canonical(y) && res_of(y) == t
            && anc(dec(y), res_of(x)) == dec(x) by {
            assert(kids_ids(c, t).contains(y));
            lemma_res_of_enc(dec(y));
        }
    }
}

/// C09: total length is the sum of the hierarchy fan-outs
pub proof fn thm_flat_len(l: Seq<u64>, t: int, n: int)
    requires 0 <= n <= l.len(), t <= 29, forall|i: int| 0 <= i < n ==> canonical(#[trigger] l[i]) && res_of(l[i]) <= t,
    ensures flat(l, t, n).len() == sum_fan(l, t, n),                                                // [C09:total-length]
    decreases n,
{
    if n > 0 {
        thm_flat_len(l, t, n - 1);
        thm_self_or_kids(l[n - 1], t);
    }
}


/// C05/C14: every ID uncompact returns is canonical, also when the inputs are non-canonical aliases
pub proof fn thm_flat_canonical(l: Seq<u64>, t: int, n: int)
    requires 0 <= n <= l.len(), t <= 29, forall|i: int| 0 <= i < n ==> decodable(#[trigger] l[i]) && res_of(l[i]) <= t,
    ensures forall|k: int| 0 <= k < flat(l, t, n).len() ==> canonical(#[trigger] flat(l, t, n)[k]) && res_of(flat(l, t, n)[k]) == t,   // [C14:uncompact.canonical-output]
    decreases n,
{
    if n > 0 {
        thm_flat_canonical(l, t, n - 1);
        let x = l[n - 1];
        lemma_enc_dec(x);
        lemma_dec_res(x);
        let c = dec(x);
        let a = flat(l, t, n - 1);
        let b = self_or_kids(x, t);
        assert forall|k: int| 0 <= k < b.len() implies canonical(#[trigger] b[k]) && res_of(b[k]) == t by {
            if res_of(x) == t {
                lemma_res_of_enc(c);
            } else {
                thm_kids_exact(c, t);
                assert(kids_ids(c, t).contains(b[k]));
                lemma_res_of_enc(dec(b[k]));
            }
        }
        assert forall|k: int| 0 <= k < (a + b).len() implies canonical(#[trigger] (a + b)[k]) && res_of((a + b)[k]) == t by {
            if k < a.len() { assert((a + b)[k] == a[k]); } else { assert((a + b)[k] == b[k - a.len()]); }
        }
    }
}

} // verus!
