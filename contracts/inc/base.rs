// ---- base: imports, trusted stubs, data types extracted from /repo
use vstd::prelude::*;
verus! {

global size_of usize == 8;

// R1: error-message text is not verified, only Ok/Err-ness.
#[verifier::external_body]
pub fn err_msg() -> (r: String) { String::new() }

// R3: verified replacement for std::cmp::max on i32
pub fn max_i32(a: i32, b: i32) -> (r: i32)
    ensures r == (if a >= b { a } else { b }),
{ if a >= b { a } else { b } }

pub fn min_i32(a: i32, b: i32) -> (r: i32)
    ensures r == (if a <= b { a } else { b }),
{ if a <= b { a } else { b } }

//@extract type OriginId from src/core/utils.rs
//@end
//@extract type Quat from src/core/utils.rs
//@end
//@extract struct Radians from src/coordinate_systems/base.rs attrs=keep
//@end
//@extract struct Spherical from src/coordinate_systems/spherical.rs attrs=keep
//@end
//@extract enum Orientation from src/core/hilbert.rs attrs=keep
//@end
//@extract struct Origin from src/core/utils.rs
//@end
//@extract struct A5Cell from src/core/utils.rs
//@end

// ---- reference tables (frozen from the v0.6.2 specification; NOT read from /repo)
#[allow(non_snake_case)]
pub open spec fn FQ(o: int) -> int {
    // first quintant per face id (face ids in curve order), reference release v0.6.2
    if o == 0 { 4 } else if o == 1 { 2 } else if o == 2 { 3 } else if o == 3 { 0 }
    else if o == 4 { 2 } else if o == 5 { 4 } else if o == 6 { 2 } else if o == 7 { 2 }
    else if o == 8 { 3 } else if o == 9 { 0 } else if o == 10 { 3 } else { 0 }
}

// R6: get_origins() is a contract boundary.  The contract is discharged on the real
// generate_origins() by the Kani closed-term harness K1 (complete: no inputs).
pub open spec fn origins_ok(v: Seq<Origin>) -> bool {
    &&& v.len() == 12
    &&& forall|i: int| 0 <= i < 12 ==> (#[trigger] v[i]).first_quintant == FQ(i) && v[i].id == i && v[i].orientation@.len() == 5
}

/// the (immutable, lazily built) face table as a specification-level constant
pub uninterp spec fn get_origins_spec() -> Seq<Origin>;

#[verifier::external_body]
pub fn get_origins() -> (r: &'static Vec<Origin>)
    ensures origins_ok(r@), r@ == get_origins_spec(),
{ unimplemented!() }

} // verus!
