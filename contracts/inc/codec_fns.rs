// ---- codec functions extracted from src/core/serialization.rs, with their contracts
verus! {

//@extract const FIRST_HILBERT_RESOLUTION from src/core/serialization.rs
//@end
//@extract const MAX_RESOLUTION from src/core/serialization.rs
//@end
//@extract const HILBERT_START_BIT from src/core/serialization.rs
//@end
//@extract const REMOVAL_MASK from src/core/serialization.rs
//@end
//@extract const WORLD_CELL from src/core/serialization.rs
//@end

//@extract fn get_resolution from src/core/serialization.rs ret=r tags=C05,C14
//@spec
ensures
    r == res_of(index), // [C05:get_resolution.value]
    -1 <= r <= 29,      // [C05:get_resolution.range]
//@loop 1
invariant
    -1 <= resolution <= 29,
    shifted == index >> (marker_pos(resolution as int) as u64),
    probe(index, 29) == probe(index, resolution as int),
decreases resolution + 1,
//@at loop 1 body-start
proof {
    let p = marker_pos(resolution as int) as u64;
    let d = (if resolution - 1 < 2 { 1u64 } else { 2u64 });
    bv_shr_step(index, p, d);
}
//@at loop 1 after
proof {
    assert(shifted & 1 == 0 || shifted & 1 == 1) by (bit_vector);
}
//@end

//@extract fn deserialize from src/core/serialization.rs ret=res tags=C05,C14
//@spec
ensures
    res is Ok <==> decodable(index),                        // [C05:deserialize.total]
    res is Ok ==> res->Ok_0 == dec(index),                  // [C05:deserialize.value]
//@end

//@extract fn serialize from src/core/serialization.rs ret=res tags=C05,C14
//@spec
requires
    cell.origin_id < 12,
    cell.segment < 5,
ensures
    ser_defined(*cell) ==> res == Ok::<u64, String>(enc(norm(*cell))),   // [C05:serialize.layout]
    !ser_defined(*cell) ==> res is Err,                                   // [C14:serialize.rejects]
//@at after-let s_u64
proof {
    let code = (if *resolution == 0 { *origin_id as u64 } else { (5 * (*origin_id as usize) + segment_n) as u64 });
    bv_ser_fields(code, s_u64, hilbert_bits as u64);
}
//@at before-tail
proof {
    let p = marker_pos(*resolution as int) as u64;
    let code = (if *resolution == 0 { *origin_id as u64 } else { (5 * (*origin_id as usize) + segment_n) as u64 });
    assert(code == code6(norm(*cell)) as u64);
    assert((HILBERT_START_BIT - r) as u64 == p);
    if *resolution < 2 {
        bv_zero_field(code << 58, (p + 1) as u64);
    }
}
//@end

} // verus!
