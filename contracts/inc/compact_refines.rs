//# tags=C08
verus! {

// ------------------------------------------------------------------------------------------
// `refines(a, b)`: list a describes the same region as list b (opaque: compact()'s own queries only
// move this predicate around; the quantifiers are opened inside the lemmas below)
// ------------------------------------------------------------------------------------------
pub open spec fn comb(done: Seq<u64>, cur: Seq<u64>, i: int) -> Seq<u64> { done + cur.subrange(i, cur.len() as int) }

#[verifier::opaque]
pub open spec fn refines(a: Seq<u64>, b: Seq<u64>) -> bool {
    &&& all_canonical(a)
    &&& forall|m: int| max_res_le(b, m) ==> max_res_le(a, m)
    &&& forall|y: A5Cell| valid(y) && max_res_le(b, y.resolution as int) ==> (covers(a, y) <==> covers(b, y))
    &&& antichain(b) ==> antichain(a)
    &&& ordered(b) ==> ordered(a)
    &&& sorted_scan(b) ==> sorted_scan(a)
}

pub proof fn lemma_refines_refl(a: Seq<u64>)
    requires all_canonical(a),
    ensures refines(a, a),
{
    reveal(refines);
}

pub proof fn lemma_refines_trans(a: Seq<u64>, b: Seq<u64>, c: Seq<u64>)
    requires refines(a, b), refines(b, c),
    ensures refines(a, c),
{
    reveal(refines);
    assert forall|y: A5Cell| valid(y) && max_res_le(c, y.resolution as int) implies (covers(a, y) <==> covers(c, y)) by {
        assert(max_res_le(b, y.resolution as int));
    }
}


/// a merge keeps the list ordered by leaf intervals: the parent's interval is the union of its children's
pub proof fn lemma_merge_ordered(cur: Seq<u64>, done: Seq<u64>, i: int, k: int, parent: u64, p: A5Cell)
    requires
        0 <= i, i + k <= cur.len(), k == group_size(p.resolution + 1), valid(p), p.resolution <= 28,
        parent == enc(p),
        forall|jj: int| 0 <= jj < k ==> #[trigger] cur[i + jj] == enc(sibling(p, jj)),
    ensures
        ordered(done + cur.subrange(i, cur.len() as int)) ==> ordered(done.push(parent) + cur.subrange(i + k, cur.len() as int)),   // [C10:merge-keeps-interval-order]
{
    let n = cur.len() as int;
    let c1 = done + cur.subrange(i, n);
    let c2 = done.push(parent) + cur.subrange(i + k, n);
    let dl = done.len() as int;
    lemma_dec_enc(p);
    if ordered(c1) {
        lemma_sibling_valid(p, 0);
        lemma_sibling_valid(p, k - 1);
        lemma_kids_tile(p, 0);
        lemma_kids_tile(p, k - 1);
        assert(c1[dl] == cur[i + 0]);
        assert(c1[dl + k - 1] == cur[i + (k - 1)]);
        assert(dec(c1[dl]) == sibling(p, 0));
        assert(dec(c1[dl + k - 1]) == sibling(p, k - 1));
        assert(leaf_lo(p) == leaf_lo(dec(c1[dl])));
        assert(leaf_hi(p) == leaf_hi(dec(c1[dl + k - 1])));
        assert forall|a: int, b: int| 0 <= a < b < c2.len() implies leaf_hi(dec(#[trigger] c2[a])) <= leaf_lo(dec(#[trigger] c2[b])) by {
            let a1 = if a < dl { a } else { a + k - 1 };
            let b1 = if b < dl { b } else { b + k - 1 };
            if a != dl && b != dl {
                assert(c2[a] == c1[a1] && c2[b] == c1[b1]);
                assert(leaf_hi(dec(c1[a1])) <= leaf_lo(dec(c1[b1])));
            } else if a == dl {
                assert(c2[b] == c1[b1]);
                assert(leaf_hi(dec(c1[dl + k - 1])) <= leaf_lo(dec(c1[b1])));
            } else {
                assert(c2[a] == c1[a1]);
                assert(leaf_hi(dec(c1[a1])) <= leaf_lo(dec(c1[dl])));
            }
        }
    }
}

pub proof fn lemma_comb_start(cur: Seq<u64>)
    ensures comb(Seq::<u64>::empty(), cur, 0) == cur,
{
    assert(comb(Seq::<u64>::empty(), cur, 0) =~= cur);
}

pub proof fn lemma_comb_end(done: Seq<u64>, cur: Seq<u64>)
    ensures comb(done, cur, cur.len() as int) == done,
{
    assert(comb(done, cur, cur.len() as int) =~= done);
}

pub proof fn lemma_comb_keep(done: Seq<u64>, cur: Seq<u64>, i: int)
    requires 0 <= i < cur.len(),
    ensures comb(done.push(cur[i]), cur, i + 1) == comb(done, cur, i), comb(done, cur, i)[done.len() as int] == cur[i],
{
    lemma_keep_step(cur, done, i);
}

/// the merge performed by compact() keeps the region: the sibling test established that the k entries are
/// exactly the children of the parent that replaces them
pub proof fn lemma_comb_merge(done: Seq<u64>, cur: Seq<u64>, i: int, cell: u64, parent: u64)
    requires
        refines(comb(done, cur, i), cur),
        res_of(cell) >= 0, first_child_bits(cell, res_of(cell)),
        0 <= i, i + group_size(res_of(cell)) <= cur.len(), cur[i] == cell,
        forall|jj: int| 1 <= jj < group_size(res_of(cell)) ==> #[trigger] cur[i + jj] == cell + jj * stride_of(res_of(cell)),
        decodable(cell) ==> parent == enc(anc(dec(cell), res_of(cell) - 1)),
    ensures
        refines(comb(done.push(parent), cur, i + group_size(res_of(cell))), cur),                 // [C08:merge-keeps-region]
{
    let k = group_size(res_of(cell));
    assert(canonical(cell)) by {
        reveal(refines);
        assert(comb(done, cur, i)[done.len() as int] == cell);
    }
    lemma_canonical_decodable(cell);
    lemma_merge_setup(cur, i, cell, parent);
    let p = parent1(dec(cell));
    assert(all_canonical(comb(done, cur, i))) by { reveal(refines); }
    lemma_merge_step(cur, done, i, k, parent, p);
    let c1 = comb(done, cur, i);
    let c2 = comb(done.push(parent), cur, i + k);
    lemma_merge_ordered(cur, done, i, k, parent, p);
    lemma_merge_sorted(cur, done, i, k, parent, p);
    assert(refines(c2, c1)) by { reveal(refines); }
    lemma_refines_trans(c2, c1, cur);
}

/// what the caller of compact() gets from `refines(out, sorted-dedup(cells))`
pub proof fn lemma_compact_final(cells: Seq<u64>, init: Seq<u64>, out: Seq<u64>)
    requires all_decodable(cells), init.to_set() == canon_set(cells, cells.len() as int), init.no_duplicates(), refines(out, init),
    ensures
        all_canonical(out),
        forall|m: int| max_res_le(cells, m) ==> max_res_le(out, m),
        forall|y: A5Cell| valid(y) && max_res_le(cells, y.resolution as int) ==> (covers(out, y) <==> covers(cells, y)),
        antichain_set(cells) ==> antichain(out) && out.no_duplicates(),
        ordered(init) ==> ordered(out),
        sorted_scan(init) ==> sorted_scan(out) && out.no_duplicates(),
{
    reveal(refines);
    lemma_initial_list(cells, init);
    assert forall|m: int| max_res_le(cells, m) implies max_res_le(out, m) by { assert(max_res_le(init, m)); }
    assert forall|y: A5Cell| valid(y) && max_res_le(cells, y.resolution as int) implies (covers(out, y) <==> covers(cells, y)) by {
        assert(max_res_le(init, y.resolution as int));
    }
    if antichain_set(cells) { lemma_antichain_no_dup(out); }
    if sorted_scan(init) { lemma_sorted_scan_no_dup(out); }
}


} // verus!
