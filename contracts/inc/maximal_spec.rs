//# tags=C10
// ---- C10: the compacted result is maximal (no complete sibling group survives)
verus! {

/// leaf interval of a cell: the ID range its descendants of resolution >= 1 occupy
/// (res >= 1: the span of C20; base cell f: the five quintant blocks of face f; world: everything)
pub open spec fn leaf_lo(c: A5Cell) -> int {
    if c.resolution >= 1 { span_lo(c) } else if c.resolution == 0 { 5 * (c.origin_id as int) * 0x0400000000000000 } else { 0int }
}

pub open spec fn leaf_hi(c: A5Cell) -> int {
    if c.resolution >= 1 { span_hi(c) } else if c.resolution == 0 { (5 * (c.origin_id as int) + 5) * 0x0400000000000000 } else { 60int * 0x0400000000000000 }
}

/// the list is ordered by leaf intervals (pairwise disjoint, increasing)
pub open spec fn ordered(l: Seq<u64>) -> bool {
    forall|k: int, j: int| 0 <= k < j < l.len() ==> leaf_hi(dec(#[trigger] l[k])) <= leaf_lo(dec(#[trigger] l[j]))
}

/// compact()'s sibling test at position a of the working list
pub open spec fn merge_test(l: Seq<u64>, a: int) -> bool {
    let r = res_of(l[a]);
    &&& r >= 0
    &&& a + group_size(r) <= l.len()
    &&& first_child_bits(l[a], r)
    &&& forall|jj: int| 1 <= jj < group_size(r) ==> #[trigger] l[a + jj] == l[a] + jj * stride_of(r)
}

pub open spec fn no_merge_possible(l: Seq<u64>) -> bool { forall|a: int| 0 <= a < l.len() ==> !merge_test(l, a) }

/// C10: the list contains no complete sibling group
pub open spec fn maximal(l: Seq<u64>) -> bool {
    forall|p: A5Cell| valid(p) && p.resolution <= 28 ==>
        !(forall|j: int| 0 <= j < group_size(p.resolution + 1) ==> l.contains(enc(#[trigger] sibling(p, j))))
}

pub proof fn bv_code_block(code: u64)
    requires code < 64,
    ensures (code << 58) == code * 0x0400000000000000,
{
    assert(code < 64 ==> (code << 58) == mul(code, 0x0400000000000000u64) && mul(code, 0x0400000000000000u64) <= 0xfc00000000000000u64) by (bit_vector);
    assert(code * 0x0400000000000000 == mul(code, 0x0400000000000000u64)) by (nonlinear_arith) requires code < 64;
}

/// spans of the four children of a cell of resolution >= 2, relative to the parent's span
pub proof fn bv_tile4(code: u64, ps: u64, q: u64, j: u64)
    requires code < 60, q < 54, ps < (1u64 << ((55 - q) as u64)), j < 4,
    ensures
        ({ let st = 1u64 << ((q + 1) as u64);
           let xj = (code << 58) | (add(mul(4, ps), j) << ((q + 1) as u64)) | (1u64 << q);
           let xp = (code << 58) | (ps << ((q + 3) as u64)) | (1u64 << ((q + 2) as u64));
           &&& st == 2 * (1u64 << q) && (1u64 << ((q + 2) as u64)) == 2 * st && (1u64 << q) >= 1
           &&& xj - (1u64 << q) == (xp - (1u64 << ((q + 2) as u64))) + j * st
           &&& xp >= (1u64 << ((q + 2) as u64)) && xj >= (1u64 << q)
           &&& mul(4, ps) + j == add(mul(4, ps), j) && mul(4, ps) == 4 * ps }),
{
    assert(code < 60 && q < 54 && ps < (1u64 << sub(55, q)) && j < 4 ==>
        ({ let st = 1u64 << add(q, 1);
           let xj = (code << 58) | (add(mul(4, ps), j) << add(q, 1)) | (1u64 << q);
           let xp = (code << 58) | (ps << add(q, 3)) | (1u64 << add(q, 2));
           st == mul(2, 1u64 << q) && (1u64 << add(q, 2)) == mul(2, st) && (1u64 << q) >= 1 && (1u64 << q) <= 0x0020000000000000u64
           && sub(xj, 1u64 << q) == add(sub(xp, 1u64 << add(q, 2)), mul(j, st))
           && xp >= (1u64 << add(q, 2)) && xj >= (1u64 << q)
           && xp < 0xf000000000000000u64 && xj < 0xf000000000000000u64
           && mul(j, st) <= 0x00c0000000000000u64
           && sub(xp, 1u64 << add(q, 2)) <= 0xf000000000000000u64
           && mul(4, ps) <= 0x0200000000000000u64 && mul(4, ps) / 4 == ps && add(mul(4, ps), j) >= mul(4, ps) })) by (bit_vector);
    let st = 1u64 << ((q + 1) as u64);
    assert(st <= 0x0040000000000000u64);
    assert(j * st == mul(j, st)) by {
        if j == 0 { assert(0 * st == 0); } else if j == 1 { assert(1 * st == st); } else if j == 2 { assert(2 * st == st + st); } else { assert(3 * st == st + st + st); }
    }
    assert(mul(4, ps) == 4 * ps) by {
        assert(4 * ps <= 0xffffffffffffffff) by { assert(ps < 0x0080000000000000u64) by { assert(q < 54 && ps < (1u64 << sub(55, q)) ==> ps < 0x0080000000000000u64) by (bit_vector); } }
    }
}

pub proof fn lemma_tile_hilbert(p: A5Cell, j: int)
    requires valid(p), 2 <= p.resolution <= 28, 0 <= j < 4,
    ensures
        valid(sibling(p, j)),
        span_lo(sibling(p, j)) == span_lo(p) + j * stride_of(p.resolution + 1),
        span_hi(sibling(p, j)) == span_lo(p) + (j + 1) * stride_of(p.resolution + 1),
        span_hi(p) == span_lo(p) + 4 * stride_of(p.resolution + 1),
        stride_of(p.resolution + 1) >= 2,
{
    let r = p.resolution + 1;
    let q = marker_pos(r) as u64;
    lemma_sibling_valid(p, j);
    lemma_code6_range(p);
    let d = sibling(p, j);
    lemma_code6_range(d);
    assert(code6(d) == code6(p));
    assert(55 - q == 2 * p.resolution - 2);
    assert(marker_pos(p.resolution as int) == q + 2);
    assert(60 - 2 * r == q + 1);
    bv_tile4(code6(p) as u64, p.s, q, j as u64);
    assert(d.s == add(mul(4, p.s), j as u64));
    let st = 1u64 << ((q + 1) as u64);
    assert(stride_of(r) == st);
    assert((j + 1) * st == j * st + st) by (nonlinear_arith);
    assert(4 * st == 2 * (2 * st)) by (nonlinear_arith);
}

pub proof fn lemma_tile_quintant(p: A5Cell, j: int)
    requires valid(p), p.resolution == 1, 0 <= j < 4,
    ensures
        valid(sibling(p, j)),
        span_lo(sibling(p, j)) == span_lo(p) + j * 0x0100000000000000,
        span_hi(sibling(p, j)) == span_lo(p) + (j + 1) * 0x0100000000000000,
        span_hi(p) == span_lo(p) + 4 * 0x0100000000000000,
{
    lemma_sibling_valid(p, j);
    lemma_code6_range(p);
    let d = sibling(p, j);
    lemma_code6_range(d);
    assert(code6(d) == code6(p));
    let code = code6(p) as u64;
    let jj = j as u64;
    assert(d.s == jj);
    assert(code < 60 && jj < 4 ==>
        ({ let x = (code << 58) | (jj << 56) | (1u64 << 55);
           sub(x, 1u64 << 55) == add(code << 58, mul(jj, 0x0100000000000000u64))
           && x >= (1u64 << 55) && x < 0xf000000000000000u64 && (1u64 << 55) == 0x0080000000000000u64
           && mul(jj, 0x0100000000000000u64) <= 0x0300000000000000u64 && (code << 58) <= 0xec00000000000000u64 })) by (bit_vector);
    assert(jj * 0x0100000000000000 == mul(jj, 0x0100000000000000u64)) by (nonlinear_arith) requires jj < 4, mul(jj, 0x0100000000000000u64) <= 0x0300000000000000u64
    { }
}

pub proof fn lemma_tile_base(p: A5Cell, j: int)
    requires valid(p), p.resolution == 0, 0 <= j < 5,
    ensures
        valid(sibling(p, j)),
        span_lo(sibling(p, j)) == leaf_lo(p) + j * 0x0400000000000000,
        span_hi(sibling(p, j)) == leaf_lo(p) + (j + 1) * 0x0400000000000000,
        leaf_hi(p) == leaf_lo(p) + 5 * 0x0400000000000000,
{
    lemma_sibling_valid(p, j);
    let d = sibling(p, j);
    lemma_code6_range(d);
    assert(code6(d) == 5 * p.origin_id + j);
    bv_code_block(code6(d) as u64);
}

/// the children's leaf intervals tile the parent's: child j occupies [lo(p) + j*w, lo(p) + (j+1)*w), hi(p) = lo(p) + k*w
pub open spec fn tile_width(p: A5Cell) -> int {
    if p.resolution >= 1 { stride_of(p.resolution + 1) as int } else if p.resolution == 0 { 0x0400000000000000int } else { 5int * 0x0400000000000000 }
}

pub proof fn lemma_kids_tile(p: A5Cell, j: int)
    requires valid(p), p.resolution <= 28, 0 <= j < group_size(p.resolution + 1),
    ensures
        valid(sibling(p, j)),
        tile_width(p) >= 1,
        leaf_lo(sibling(p, j)) == leaf_lo(p) + j * tile_width(p),
        leaf_hi(sibling(p, j)) == leaf_lo(p) + (j + 1) * tile_width(p),
        leaf_hi(p) == leaf_lo(p) + group_size(p.resolution + 1) * tile_width(p),
{
    if p.resolution >= 2 {
        lemma_tile_hilbert(p, j);
    } else if p.resolution == 1 {
        lemma_tile_quintant(p, j);
        assert(stride_of(2) == 0x0100000000000000u64) by { assert((1u64 << 56) == 0x0100000000000000u64) by (bit_vector); }
    } else if p.resolution == 0 {
        lemma_tile_base(p, j);
    } else {
        lemma_sibling_valid(p, j);
        assert((j + 1) * (5 * 0x0400000000000000) == j * (5 * 0x0400000000000000) + 5 * 0x0400000000000000) by (nonlinear_arith);
        assert(5 * j * 0x0400000000000000 == j * (5 * 0x0400000000000000)) by (nonlinear_arith);
        assert((5 * j + 5) * 0x0400000000000000 == (j + 1) * (5 * 0x0400000000000000)) by (nonlinear_arith);
    }
}


pub proof fn bv_first_child(code: u64, s: u64, q: u64)
    requires code < 60, q < 56, s & 3 == 0, s < (1u64 << ((57 - q) as u64)),
    ensures (((code << 58) | (s << ((q + 1) as u64)) | (1u64 << q)) & (3u64 << ((q + 1) as u64))) == 0,
{
    assert(code < 60 && q < 56 && s & 3 == 0 && s < (1u64 << sub(57, q)) ==>
        (((code << 58) | (s << add(q, 1)) | (1u64 << q)) & (3u64 << add(q, 1))) == 0) by (bit_vector);
}

pub proof fn lemma_leaf_nonempty(c: A5Cell)
    requires valid(c),
    ensures leaf_lo(c) < leaf_hi(c),
{
    if c.resolution >= 2 {
        let q = marker_pos(c.resolution as int) as u64;
        assert(q < 58 ==> (1u64 << q) >= 1) by (bit_vector);
    }
}

/// the interval of a descendant is nested in the interval of its ancestor
pub proof fn lemma_desc_nested(d: A5Cell, c: A5Cell)
    requires is_desc(d, c), valid(c),
    ensures leaf_lo(c) <= leaf_lo(d), leaf_hi(d) <= leaf_hi(c),
    decreases d.resolution - c.resolution,
{
    if d.resolution > c.resolution {
        let r = d.resolution as int;
        let pd = parent1(d);
        lemma_anc_valid(d, r - 1);
        lemma_anc_step(d, r - 1);
        assert(pd == anc(d, r - 1));
        lemma_anc_compose(d, r - 1, c.resolution as int);
        assert(is_desc(pd, c));
        let j = lemma_siblings_complete(pd, d);
        lemma_kids_tile(pd, j);
        let w = tile_width(pd);
        let k = group_size(r);
        assert(j * w >= 0) by (nonlinear_arith) requires j >= 0, w >= 1;
        assert((j + 1) * w <= k * w) by (nonlinear_arith) requires j + 1 <= k, w >= 1;
        lemma_desc_nested(pd, c);
    }
}

pub proof fn lemma_same_res_disjoint(a: A5Cell, b: A5Cell)
    requires valid(a), valid(b), a.resolution == b.resolution, a.resolution >= 1, enc(a) < enc(b),
    ensures leaf_hi(a) <= leaf_lo(b),
{
    lemma_code6_range(a);
    lemma_code6_range(b);
    let p = marker_pos(a.resolution as int) as u64;
    if a.resolution >= 2 { assert(57 - p == 2 * a.resolution - 2); } else { assert((1u64 << 1) == 2) by (bit_vector); }
    bv_enc_below(code6(a) as u64, a.s, p);
    bv_enc_below(code6(b) as u64, b.s, p);
    if a.resolution == 1 {
        bv_code_order(code6(a) as u64, code6(b) as u64);
        bv_code_order(code6(b) as u64, code6(a) as u64);
        bv_enc_fields(code6(a) as u64, a.s, p);
        bv_enc_fields(code6(b) as u64, b.s, p);
    } else {
        bv_low_bits(code6(a) as u64, a.s, p);
        bv_low_bits(code6(b) as u64, b.s, p);
        bv_stride_apart(enc(a), enc(b), p);
    }
}

/// two entries whose intervals touch are neighbours in an ordered list
pub proof fn lemma_touching_adjacent(l: Seq<u64>, a: int, b: int)
    requires
        all_canonical(l), ordered(l), 0 <= a < l.len(), 0 <= b < l.len(),
        leaf_hi(dec(l[a])) == leaf_lo(dec(l[b])),
    ensures b == a + 1,
{
    lemma_canonical_decodable(l[a]);
    lemma_canonical_decodable(l[b]);
    lemma_leaf_nonempty(dec(l[a]));
    lemma_leaf_nonempty(dec(l[b]));
    if b > a + 1 {
        lemma_canonical_decodable(l[a + 1]);
        lemma_leaf_nonempty(dec(l[a + 1]));
    }
}

pub proof fn lemma_sibling0_first_child(p: A5Cell)
    requires valid(p), p.resolution <= 28,
    ensures first_child_bits(enc(sibling(p, 0)), p.resolution + 1), canonical(enc(sibling(p, 0))),
{
    lemma_sibling_valid(p, 0);
    let s0 = sibling(p, 0);
    let r = p.resolution + 1;
    lemma_code6_range(s0);
    let q = marker_pos(r) as u64;
    if r >= 2 {
        assert(57 - q == 2 * r - 2);
        assert(60 - 2 * r == q + 1);
        if p.resolution >= 2 {
            let ps = p.s;
            let k2 = (2 * p.resolution - 2) as u64;
            assert(k2 <= 54 && ps < (1u64 << k2) ==> mul(4, ps) & 3 == 0 && mul(4, ps) / 4 == ps && mul(4, ps) <= 0x0100000000000000u64) by (bit_vector);
            assert(s0.s == mul(4, ps));
        } else {
            assert(0u64 & 3 == 0) by (bit_vector);
        }
        bv_first_child(code6(s0) as u64, s0.s, q);
    } else {
        if r == 1 { assert(s0.s == 0); assert((1u64 << 1) == 2) by (bit_vector); } else { assert((1u64 << 0) == 1) by (bit_vector); }
        bv_enc_fields(code6(s0) as u64, s0.s, q);
        assert(top6(enc(s0)) == code6(s0));
    }
}

/// positions of the siblings in an ordered list that contains them all: consecutive from the first
pub proof fn lemma_group_positions(l: Seq<u64>, p: A5Cell, a0: int, j: int) -> (aj: int)
    requires
        all_canonical(l), ordered(l), valid(p), p.resolution <= 28,
        forall|jj: int| 0 <= jj < group_size(p.resolution + 1) ==> l.contains(enc(#[trigger] sibling(p, jj))),
        0 <= a0 < l.len(), l[a0] == enc(sibling(p, 0)),
        0 <= j < group_size(p.resolution + 1),
    ensures aj == a0 + j, aj < l.len(), l[aj] == enc(sibling(p, j)),
    decreases j,
{
    if j == 0 {
        a0
    } else {
        let prev = lemma_group_positions(l, p, a0, j - 1);
        assert(l.contains(enc(sibling(p, j))));
        let aj = choose|x: int| 0 <= x < l.len() && l[x] == enc(sibling(p, j));
        lemma_sibling_valid(p, j);
        lemma_sibling_valid(p, j - 1);
        lemma_kids_tile(p, j);
        lemma_kids_tile(p, j - 1);
        lemma_touching_adjacent(l, prev, aj);
        aj
    }
}

/// C10: an interval-ordered list on which the sibling test fails everywhere contains no complete sibling group
pub proof fn lemma_maximal(l: Seq<u64>)
    requires all_canonical(l), ordered(l), no_merge_possible(l),
    ensures maximal(l),                                                                           // [C10:no-complete-sibling-group]
{
    assert forall|p: A5Cell| valid(p) && p.resolution <= 28 implies
        !(forall|j: int| 0 <= j < group_size(p.resolution + 1) ==> l.contains(enc(#[trigger] sibling(p, j)))) by {
        if forall|j: int| 0 <= j < group_size(p.resolution + 1) ==> l.contains(enc(#[trigger] sibling(p, j))) {
            let r = p.resolution + 1;
            let k = group_size(r);
            assert(l.contains(enc(sibling(p, 0))));
            let a0 = choose|x: int| 0 <= x < l.len() && l[x] == enc(sibling(p, 0));
            lemma_sibling0_first_child(p);
            lemma_sibling_valid(p, 0);
            lemma_sibling_parent(p, 0);
            let last = lemma_group_positions(l, p, a0, k - 1);
            assert(res_of(l[a0]) == r);
            assert forall|jj: int| 1 <= jj < k implies #[trigger] l[a0 + jj] == l[a0] + jj * stride_of(r) by {
                let x = lemma_group_positions(l, p, a0, jj);
                lemma_sibling_group(enc(sibling(p, 0)), jj);
            }
            assert(merge_test(l, a0));
            assert(false);
        }
    }
}


pub proof fn lemma_empty_maximal()
    ensures maximal(Seq::<u64>::empty()), no_merge_possible(Seq::<u64>::empty()),
{
    assert forall|p: A5Cell| valid(p) && p.resolution <= 28 implies
        !(forall|j: int| 0 <= j < group_size(p.resolution + 1) ==> Seq::<u64>::empty().contains(enc(#[trigger] sibling(p, j)))) by {
        assert(!Seq::<u64>::empty().contains(enc(sibling(p, 0))));
    }
}


/// the sibling test is sound: where it succeeds, a complete sibling group is present
pub proof fn lemma_merge_test_sound(l: Seq<u64>, a: int) -> (p: A5Cell)
    requires all_canonical(l), 0 <= a < l.len(), merge_test(l, a),
    ensures
        valid(p), p.resolution <= 28,
        forall|j: int| 0 <= j < group_size(p.resolution + 1) ==> l.contains(enc(#[trigger] sibling(p, j))),
{
    let cell = l[a];
    let r = res_of(cell);
    lemma_canonical_decodable(cell);
    lemma_dec_res(cell);
    let c = dec(cell);
    lemma_anc_valid(c, r - 1);
    lemma_anc_step(c, r - 1);
    let p = parent1(c);
    assert forall|j: int| 0 <= j < group_size(p.resolution + 1) implies l.contains(enc(#[trigger] sibling(p, j))) by {
        lemma_sibling_group(cell, j);
        if j == 0 { assert(cell + 0 * stride_of(r) == cell); assert(l[a + 0] == cell); }
        assert(l[a + j] == enc(sibling(p, j)));
    }
    p
}

/// C10: a maximal list of valid cells is a fixed point of the sibling test, in whatever order it is listed
pub proof fn lemma_maximal_no_merge(l: Seq<u64>)
    requires all_canonical(l), maximal(l),
    ensures no_merge_possible(l),
{
    assert forall|a: int| 0 <= a < l.len() implies !merge_test(l, a) by {
        if merge_test(l, a) {
            let p = lemma_merge_test_sound(l, a);
            assert(false);
        }
    }
}

/// C10 (idempotence, as sets): if `out` is a maximal list of valid cells, then compacting it again returns its
/// sorted duplicate-free enumeration - the same set.  (compact()'s contract: a list on whose sorted enumeration the
/// sibling test fails everywhere is returned as that enumeration.)
pub proof fn thm_idempotent(out: Seq<u64>, s: Seq<u64>)
    requires all_canonical(out), maximal(out), sorted_scan(s), s.to_set() == out.to_set(),
    ensures no_merge_possible(s), all_canonical(s), maximal(s),                                   // [C10:idempotent]
{
    assert forall|k: int| 0 <= k < s.len() implies canonical(#[trigger] s[k]) by {
        assert(s.to_set().contains(s[k]));
        assert(out.contains(s[k]));
        let j = choose|j: int| 0 <= j < out.len() && out[j] == s[k];
        assert(canonical(out[j]));
    }
    assert forall|p: A5Cell| valid(p) && p.resolution <= 28 implies
        !(forall|j: int| 0 <= j < group_size(p.resolution + 1) ==> s.contains(enc(#[trigger] sibling(p, j)))) by {
        if forall|j: int| 0 <= j < group_size(p.resolution + 1) ==> s.contains(enc(#[trigger] sibling(p, j))) {
            assert forall|j: int| 0 <= j < group_size(p.resolution + 1) implies out.contains(enc(#[trigger] sibling(p, j))) by {
                assert(s.contains(enc(sibling(p, j))));
                assert(s.to_set().contains(enc(sibling(p, j))));
            }
            assert(false);
        }
    }
    lemma_maximal_no_merge(s);
}

} // verus!
