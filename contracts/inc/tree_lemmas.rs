//# tags=C07
// ---- C07: the children sequence enumerates exactly the descendants, once each
verus! {

/// d is a cell of resolution t below c
pub open spec fn is_kid(c: A5Cell, t: int, d: A5Cell) -> bool {
    valid(d) && d.resolution == t && anc(d, c.resolution as int) == c
}

pub open spec fn kid_at(c: A5Cell, t: int, jo: int, js: int, i: int) -> A5Cell {
    kid_cell(c, t, kid_origin(c, jo), kid_segment(c, t, js), i)
}

pub open spec fn idx_ok(c: A5Cell, t: int, no: int, ns: int, jo: int, js: int, i: int) -> bool {
    0 <= jo < no && 0 <= js < ns && 0 <= i < kid_count(c, t)
}

pub proof fn bv_kid_anc(s: u64, k: u64, i: u64, a: u64)
    requires a + k <= 58, s < (1u64 << a), i < (1u64 << k),
    ensures (((s << k) + i) as u64 >> k) == s,
{
    bv_child_s(s, a, k, i);
    assert(add(a, k) <= 58 && a <= 58 && k <= 58 && s < (1u64 << a) && i < (1u64 << k) ==> (add(s << k, i) >> k) == s) by (bit_vector);
}

pub proof fn bv_split(d: u64, k: u64)
    requires k <= 58,
    ensures
        d == ((d >> k) << k) + (d & sub(1u64 << k, 1)),
        (d & sub(1u64 << k, 1)) < (1u64 << k),
        (1u64 << k) >= 1,
{
    let hi = (d >> k) << k;
    let lo = d & sub(1u64 << k, 1);
    assert(k <= 58 ==> d == add((d >> k) << k, d & sub(1u64 << k, 1))
        && (d & sub(1u64 << k, 1)) < (1u64 << k) && (1u64 << k) >= 1
        && (d & sub(1u64 << k, 1)) <= sub(d, (d >> k) << k)
        && ((d >> k) << k) <= d) by (bit_vector);
    assert(lo <= d - hi);
    assert(hi + lo <= d);
    assert(add(hi, lo) == (hi + lo) as u64);
}

/// every index triple in range names a kid of c (valid, resolution t, ancestor c)
pub proof fn lemma_kid_at_is_kid(c: A5Cell, t: int, jo: int, js: int, i: int)
    requires
        valid(c), c.resolution < t <= 29,
        idx_ok(c, t, kid_n_origins(c), kid_n_segments(c, t), jo, js, i),
    ensures
        is_kid(c, t, kid_at(c, t, jo, js, i)),                                     // [C07:children-are-descendants]
        kid_at(c, t, jo, js, i).origin_id == kid_origin(c, jo),
        t >= 1 ==> kid_at(c, t, jo, js, i).segment == kid_segment(c, t, js),
        kid_at(c, t, jo, js, i).s == (c.s << ((2 * kid_levels(c, t)) as u64)) + i,
{
    let lv = kid_levels(c, t);
    assert(lv <= 28);
    lemma_pow4_shift(lv as nat);
    if lv <= 20 {
        lemma_child_s(c, t, i);
    }
    let k = (2 * lv) as u64;
    if c.resolution >= 2 {
        bv_child_s(c.s, (2 * c.resolution - 2) as u64, k, i as u64);
        bv_kid_anc(c.s, k, i as u64, (2 * c.resolution - 2) as u64);
    } else {
        assert(c.s == 0);
        assert((1u64 << 0) == 1) by (bit_vector);
        bv_child_s(c.s, 0, k, i as u64);
    }
    if t < 2 { assert(ipow(4, 0) == 1); }
}

/// conversely every kid of c is named by an index triple in range
pub proof fn lemma_kid_has_index(c: A5Cell, t: int, d: A5Cell) -> (r: (int, int, int))
    requires valid(c), c.resolution < t <= 29, is_kid(c, t, d),
    ensures
        idx_ok(c, t, kid_n_origins(c), kid_n_segments(c, t), r.0, r.1, r.2),
        kid_at(c, t, r.0, r.1, r.2) == d,                                           // [C07:descendants-are-children]
{
    let lv = kid_levels(c, t);
    lemma_pow4_shift(lv as nat);
    let k = (2 * lv) as u64;
    let jo: int = if c.resolution == -1 { d.origin_id as int } else { 0 };
    let js: int = if (c.resolution == -1 && t > 0) || c.resolution == 0 { d.segment as int } else { 0 };
    let sh = c.s << k;
    let i: int = d.s - sh;
    if c.resolution >= 2 {
        bv_split(d.s, k);
        assert(d.s >> k == c.s);
    } else {
        assert(c.s == 0);
        assert(0u64 << k == 0) by (bit_vector) requires k <= 58;
        if t >= 2 { assert(d.s < (1u64 << ((2 * t - 2) as u64))); }
        else { assert(d.s == 0); assert(ipow(4, 0) == 1); }
    }
    lemma_kid_at_is_kid(c, t, jo, js, i);
    (jo, js, i)
}

// ------------------------------------------------------------------------------------------
// membership characterisation of the concatenated sequences
// ------------------------------------------------------------------------------------------
pub open spec fn in_mid(c: A5Cell, t: int, o: u8, n: int, x: u64) -> bool {
    exists|js: int, i: int| 0 <= js < n && 0 <= i < kid_count(c, t)
        && x == enc(#[trigger] kid_cell(c, t, o, kid_segment(c, t, js), i))
}

pub proof fn lemma_mid_elems(c: A5Cell, t: int, o: u8, n: int)
    requires n >= 0, kid_count(c, t) >= 0,
    ensures
        forall|x: u64| kids_mid(c, t, o, n).contains(x) <==> in_mid(c, t, o, n, x),
        kids_mid(c, t, o, n).len() == n * kid_count(c, t),
    decreases n,
{
    let cnt = kid_count(c, t);
    if n == 0 {
        assert(kids_mid(c, t, o, 0) =~= Seq::<u64>::empty());
        assert(0 * cnt == 0);
        assert forall|x: u64| kids_mid(c, t, o, 0).contains(x) <==> in_mid(c, t, o, 0, x) by {}
    } else {
        lemma_mid_elems(c, t, o, n - 1);
        let a = kids_mid(c, t, o, n - 1);
        let seg = kid_segment(c, t, n - 1);
        let b = kids_inner(c, t, o, seg);
        assert(kids_mid(c, t, o, n) == a + b);
        assert((n - 1) * cnt + cnt == n * cnt) by (nonlinear_arith);
        assert(a.len() == (n - 1) * cnt);
        assert(b.len() == cnt);
        assert((a + b).len() == n * cnt);
        assert forall|x: u64| kids_mid(c, t, o, n).contains(x) <==> in_mid(c, t, o, n, x) by {
            if (a + b).contains(x) {
                let k = choose|k: int| 0 <= k < (a + b).len() && (a + b)[k] == x;
                if k < a.len() {
                    assert(a.contains(x));
                    assert(in_mid(c, t, o, n - 1, x));
                    let (js, i) = choose|js: int, i: int| 0 <= js < n - 1 && 0 <= i < cnt
                        && x == enc(#[trigger] kid_cell(c, t, o, kid_segment(c, t, js), i));
                    assert(0 <= js < n && x == enc(kid_cell(c, t, o, kid_segment(c, t, js), i)));
                } else {
                    let i = k - a.len();
                    assert(x == b[i]);
                    assert(x == enc(kid_cell(c, t, o, kid_segment(c, t, n - 1), i)));
                }
            }
            if in_mid(c, t, o, n, x) {
                let (js, i) = choose|js: int, i: int| 0 <= js < n && 0 <= i < cnt
                    && x == enc(#[trigger] kid_cell(c, t, o, kid_segment(c, t, js), i));
                if js < n - 1 {
                    assert(in_mid(c, t, o, n - 1, x));
                    assert(a.contains(x));
                    let k = choose|k: int| 0 <= k < a.len() && a[k] == x;
                    assert((a + b)[k] == x);
                } else {
                    assert(b[i] == x);
                    assert((a + b)[a.len() + i] == x);
                }
            }
        }
    }
}

pub open spec fn in_outer(c: A5Cell, t: int, n: int, x: u64) -> bool {
    exists|jo: int, js: int, i: int| idx_ok(c, t, n, kid_n_segments(c, t), jo, js, i)
        && x == enc(#[trigger] kid_at(c, t, jo, js, i))
}

pub proof fn lemma_outer_elems(c: A5Cell, t: int, n: int)
    requires n >= 0, kid_count(c, t) >= 0,
    ensures
        forall|x: u64| kids_outer(c, t, n).contains(x) <==> in_outer(c, t, n, x),
        kids_outer(c, t, n).len() == n * (kid_n_segments(c, t) * kid_count(c, t)),
    decreases n,
{
    let cnt = kid_count(c, t);
    let ns = kid_n_segments(c, t);
    if n == 0 {
        assert(kids_outer(c, t, 0) =~= Seq::<u64>::empty());
        assert(0 * (ns * cnt) == 0);
        assert forall|x: u64| kids_outer(c, t, 0).contains(x) <==> in_outer(c, t, 0, x) by {}
    } else {
        lemma_outer_elems(c, t, n - 1);
        let o = kid_origin(c, n - 1);
        lemma_mid_elems(c, t, o, ns);
        let a = kids_outer(c, t, n - 1);
        let b = kids_mid(c, t, o, ns);
        assert(kids_outer(c, t, n) == a + b);
        assert((n - 1) * (ns * cnt) + ns * cnt == n * (ns * cnt)) by (nonlinear_arith);
        assert(a.len() == (n - 1) * (ns * cnt));
        assert(b.len() == ns * cnt);
        assert((a + b).len() == n * (ns * cnt));
        assert forall|x: u64| kids_outer(c, t, n).contains(x) <==> in_outer(c, t, n, x) by {
            if (a + b).contains(x) {
                let k = choose|k: int| 0 <= k < (a + b).len() && (a + b)[k] == x;
                if k < a.len() {
                    assert(a.contains(x));
                    assert(in_outer(c, t, n - 1, x));
                    let (jo, js, i) = choose|jo: int, js: int, i: int| idx_ok(c, t, n - 1, ns, jo, js, i)
                        && x == enc(#[trigger] kid_at(c, t, jo, js, i));
                    assert(idx_ok(c, t, n, ns, jo, js, i) && x == enc(kid_at(c, t, jo, js, i)));
                } else {
                    assert(b.contains(x)) by { assert(b[k - a.len()] == x); }
                    assert(in_mid(c, t, o, ns, x));
                    let (js, i) = choose|js: int, i: int| 0 <= js < ns && 0 <= i < cnt
                        && x == enc(#[trigger] kid_cell(c, t, o, kid_segment(c, t, js), i));
                    assert(idx_ok(c, t, n, ns, n - 1, js, i) && x == enc(kid_at(c, t, n - 1, js, i)));
                }
            }
            if in_outer(c, t, n, x) {
                let (jo, js, i) = choose|jo: int, js: int, i: int| idx_ok(c, t, n, ns, jo, js, i)
                    && x == enc(#[trigger] kid_at(c, t, jo, js, i));
                if jo < n - 1 {
                    assert(idx_ok(c, t, n - 1, ns, jo, js, i));
                    assert(in_outer(c, t, n - 1, x));
                    assert(a.contains(x));
                    let k = choose|k: int| 0 <= k < a.len() && a[k] == x;
                    assert((a + b)[k] == x);
                } else {
                    assert(x == enc(kid_cell(c, t, o, kid_segment(c, t, js), i)));
                    assert(in_mid(c, t, o, ns, x));
                    assert(b.contains(x));
                    let k = choose|k: int| 0 <= k < b.len() && b[k] == x;
                    assert((a + b)[a.len() + k] == x);
                }
            }
        }
    }
}

/// C07: the children of c at t are exactly the IDs of the cells of resolution t whose ancestor at
/// res(c) is c
pub proof fn thm_kids_exact(c: A5Cell, t: int)
    requires valid(c), c.resolution < t <= 29,
    ensures
        forall|x: u64| #[trigger] kids_ids(c, t).contains(x) ==> decodable(x) && enc(dec(x)) == x && is_kid(c, t, dec(x)),   // [C07:children-are-descendants]
        forall|d: A5Cell| is_kid(c, t, d) ==> kids_ids(c, t).contains(#[trigger] enc(d)),                                     // [C07:descendants-are-children]
{
    let no = kid_n_origins(c);
    let ns = kid_n_segments(c, t);
    lemma_pow4_shift(kid_levels(c, t) as nat);
    lemma_outer_elems(c, t, no);
    assert forall|x: u64| #[trigger] kids_ids(c, t).contains(x) implies decodable(x) && enc(dec(x)) == x && is_kid(c, t, dec(x)) by {
        assert(in_outer(c, t, no, x));
        let (jo, js, i) = choose|jo: int, js: int, i: int| idx_ok(c, t, no, ns, jo, js, i)
            && x == enc(#[trigger] kid_at(c, t, jo, js, i));
        lemma_kid_at_is_kid(c, t, jo, js, i);
        lemma_dec_enc(kid_at(c, t, jo, js, i));
    }
    assert forall|d: A5Cell| is_kid(c, t, d) implies kids_ids(c, t).contains(#[trigger] enc(d)) by {
        let r = lemma_kid_has_index(c, t, d);
        assert(idx_ok(c, t, no, ns, r.0, r.1, r.2) && enc(d) == enc(kid_at(c, t, r.0, r.1, r.2)));
        assert(in_outer(c, t, no, enc(d)));
    }
}

/// C07: exactly as many children as the hierarchy dictates
pub proof fn thm_kids_len(c: A5Cell, t: int)
    requires valid(c), c.resolution < t <= 29,
    ensures kids_ids(c, t).len() == fan(c.resolution as int, t),                    // [C07:children-count]
{
    lemma_pow4_shift(kid_levels(c, t) as nat);
    lemma_outer_elems(c, t, kid_n_origins(c));
    let cnt = kid_count(c, t);
    if c.resolution == -1 {
        if t == 0 { assert(ipow(4, 0) == 1); assert(fan(0, 0) == 1); }
        else { assert(fan(-1, t) == 12 * fan(0, t)); assert(fan(0, t) == 5 * fan(1, t));
               if t == 1 { assert(ipow(4, 0) == 1); }
               assert(12 * (5 * cnt) == 12 * (5 * fan(1, t))); }
    } else if c.resolution == 0 {
        if t == 1 { assert(ipow(4, 0) == 1); }
        assert(fan(0, t) == 5 * fan(1, t));
    }
}


// ------------------------------------------------------------------------------------------
// C07: children are pairwise distinct
// ------------------------------------------------------------------------------------------
pub proof fn lemma_kid_at_injective(c: A5Cell, t: int, jo1: int, js1: int, i1: int, jo2: int, js2: int, i2: int)
    requires
        valid(c), c.resolution < t <= 29,
        idx_ok(c, t, kid_n_origins(c), kid_n_segments(c, t), jo1, js1, i1),
        idx_ok(c, t, kid_n_origins(c), kid_n_segments(c, t), jo2, js2, i2),
        jo1 != jo2 || js1 != js2 || i1 != i2,
    ensures enc(kid_at(c, t, jo1, js1, i1)) != enc(kid_at(c, t, jo2, js2, i2)),
{
    lemma_kid_at_is_kid(c, t, jo1, js1, i1);
    lemma_kid_at_is_kid(c, t, jo2, js2, i2);
    let a = kid_at(c, t, jo1, js1, i1);
    let b = kid_at(c, t, jo2, js2, i2);
    if enc(a) == enc(b) {
        lemma_enc_injective(a, b);
        assert(false);
    }
}

pub proof fn lemma_concat_no_dup(a: Seq<u64>, b: Seq<u64>)
    requires a.no_duplicates(), b.no_duplicates(), forall|x: u64| a.contains(x) ==> !b.contains(x),
    ensures (a + b).no_duplicates(),
{
    assert forall|i: int, j: int| 0 <= i < (a + b).len() && 0 <= j < (a + b).len() && i != j implies (a + b)[i] != (a + b)[j] by {
        if i < a.len() && j >= a.len() {
            assert(a.contains(a[i]));
            assert(b.contains(b[j - a.len()]));
        }
        if j < a.len() && i >= a.len() {
            assert(a.contains(a[j]));
            assert(b.contains(b[i - a.len()]));
        }
    }
}

pub proof fn lemma_mid_no_dup(c: A5Cell, t: int, jo: int, n: int)
    requires valid(c), c.resolution < t <= 29, 0 <= jo < kid_n_origins(c), 0 <= n <= kid_n_segments(c, t),
    ensures kids_mid(c, t, kid_origin(c, jo), n).no_duplicates(),
    decreases n,
{
    let o = kid_origin(c, jo);
    let cnt = kid_count(c, t);
    lemma_pow4_shift(kid_levels(c, t) as nat);
    if n > 0 {
        lemma_mid_no_dup(c, t, jo, n - 1);
        lemma_mid_elems(c, t, o, n - 1);
        let a = kids_mid(c, t, o, n - 1);
        let b = kids_inner(c, t, o, kid_segment(c, t, n - 1));
        assert forall|i: int, j: int| 0 <= i < b.len() && 0 <= j < b.len() && i != j implies b[i] != b[j] by {
            lemma_kid_at_injective(c, t, jo, n - 1, i, jo, n - 1, j);
        }
        assert forall|x: u64| a.contains(x) implies !b.contains(x) by {
            if b.contains(x) {
                let k = choose|k: int| 0 <= k < b.len() && b[k] == x;
                assert(in_mid(c, t, o, n - 1, x));
                let (js, i) = choose|js: int, i: int| 0 <= js < n - 1 && 0 <= i < cnt
                    && x == enc(#[trigger] kid_cell(c, t, o, kid_segment(c, t, js), i));
                lemma_kid_at_injective(c, t, jo, js, i, jo, n - 1, k);
            }
        }
        lemma_concat_no_dup(a, b);
    }
}

pub proof fn lemma_outer_no_dup(c: A5Cell, t: int, n: int)
    requires valid(c), c.resolution < t <= 29, 0 <= n <= kid_n_origins(c),
    ensures kids_outer(c, t, n).no_duplicates(),
    decreases n,
{
    let ns = kid_n_segments(c, t);
    let cnt = kid_count(c, t);
    lemma_pow4_shift(kid_levels(c, t) as nat);
    if n > 0 {
        lemma_outer_no_dup(c, t, n - 1);
        lemma_outer_elems(c, t, n - 1);
        let o = kid_origin(c, n - 1);
        lemma_mid_no_dup(c, t, n - 1, ns);
        lemma_mid_elems(c, t, o, ns);
        let a = kids_outer(c, t, n - 1);
        let b = kids_mid(c, t, o, ns);
        assert forall|x: u64| a.contains(x) implies !b.contains(x) by {
            if b.contains(x) {
                assert(in_outer(c, t, n - 1, x));
                let (jo, js, i) = choose|jo: int, js: int, i: int| idx_ok(c, t, n - 1, ns, jo, js, i)
                    && x == enc(#[trigger] kid_at(c, t, jo, js, i));
                assert(in_mid(c, t, o, ns, x));
                let (js2, i2) = choose|js2: int, i2: int| 0 <= js2 < ns && 0 <= i2 < cnt
                    && x == enc(#[trigger] kid_cell(c, t, o, kid_segment(c, t, js2), i2));
                lemma_kid_at_injective(c, t, jo, js, i, n - 1, js2, i2);
            }
        }
        lemma_concat_no_dup(a, b);
    }
}

/// C07: the children of c at t are pairwise distinct
pub proof fn thm_kids_distinct(c: A5Cell, t: int)
    requires valid(c), c.resolution < t <= 29,
    ensures kids_ids(c, t).no_duplicates(),                                         // [C07:children-distinct]
{
    lemma_outer_no_dup(c, t, kid_n_origins(c));
}

/// C07: children of children are the children at the deeper level
pub proof fn thm_kids_of_kids(c: A5Cell, t1: int, t2: int, d: A5Cell)
    requires valid(c), c.resolution <= t1 <= t2 <= 29,
    ensures
        is_kid(c, t2, d) <==> (valid(d) && d.resolution == t2 && is_kid(c, t1, anc(d, t1)) && is_kid(anc(d, t1), t2, d)),   // [C07:children-of-children]
{
    if valid(d) && d.resolution == t2 {
        lemma_anc_valid(d, t1);
        lemma_anc_compose(d, t1, c.resolution as int);
    }
}

/// C07: every cell has exactly one parent, and it is listed among that parent's children
pub proof fn thm_unique_parent(d: A5Cell, p: A5Cell)
    requires valid(d), d.resolution >= 0,
    ensures
        is_kid(parent1(d), d.resolution as int, d),                                 // [C07:parent-lists-child]
        valid(parent1(d)) && parent1(d).resolution == d.resolution - 1,
        (valid(p) && p.resolution == d.resolution - 1 && is_kid(p, d.resolution as int, d)) ==> p == parent1(d),  // [C07:exactly-one-parent]
{
    let r = d.resolution as int;
    lemma_anc_valid(d, r - 1);
    lemma_anc_step(d, r - 1);
}

} // verus!
