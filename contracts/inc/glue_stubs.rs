// ---- float layer as contract boundary: opaque types + external_body stubs.
// ASSUMED: every float-layer callee returns (is total); nothing about its values.
// OBLIGATIONS: the integer preconditions below (derived from the callee bodies: indices, shift amounts,
// digit counts) must be proved at every call site in the verified glue functions.
verus! {

#[verifier::external_body] #[derive(Clone, Copy)] pub struct LonLat { _p: f64 }
#[verifier::external_body] #[derive(Clone, Copy)] pub struct Face { _p: f64 }
#[verifier::external_body] #[derive(Clone, Copy)] pub struct SphericalPt { _p: f64 }
#[verifier::external_body] pub struct Anchor { _p: f64 }
#[verifier::external_body] pub struct PentagonShape { _p: f64 }

impl Anchor {
    /// both flip flags are +-1 (hilbert.rs; proved of the real s_to_anchor in unit `hilbert`, needed by the i8 sum
    /// `flips[0] + flips[1]` in tiling.rs::get_pentagon_vertices, verified in unit `shape`)
    pub uninterp spec fn flips_ok(&self) -> bool;
}

impl LonLat {
    #[verifier::external_body]
    pub fn new(_longitude: f64, _latitude: f64) -> LonLat { unimplemented!() }
}

impl PentagonShape {
    /// number of vertices (3 for quintant triangles, 5 for pentagons), times the edge subdivision
    pub uninterp spec fn nverts(&self) -> nat;

    #[verifier::external_body]
    pub fn get_center(&self) -> Face { unimplemented!() }

    #[verifier::external_body]
    pub fn contains_point(&self, _p: Face) -> f64 { unimplemented!() }

    // geometry/pentagon.rs: `if segments <= 1 { clone } else { n * segments vertices }`
    #[verifier::external_body]
    pub fn split_edges(&self, segments: usize) -> (r: PentagonShape)
        ensures r.nverts() == self.nverts() * (if segments <= 1 { 1nat } else { segments as nat }),
    { unimplemented!() }

    #[verifier::external_body]
    pub fn get_vertices_vec(&self) -> (r: Vec<Face>)
        ensures r@.len() == self.nverts(),
    { unimplemented!() }
}

// origin.rs::segment_to_quintant: indexes layout[(segment + 5 - first_quintant) % 5]
#[verifier::external_body]
pub fn segment_to_quintant(segment: usize, origin: &Origin) -> (r: (usize, Orientation))
    requires segment < 5, origin.first_quintant < 5, origin.orientation@.len() == 5,
    ensures r.0 < 5,
{ unimplemented!() }

// tiling.rs: quintant_rotations()[quintant]
#[verifier::external_body]
pub fn get_quintant_vertices(quintant: usize) -> (r: PentagonShape)
    requires quintant < 5,
    ensures r.nverts() == 3,
{ unimplemented!() }

#[verifier::external_body]
pub fn get_face_vertices() -> (r: PentagonShape)
    ensures r.nverts() == 5,
{ unimplemented!() }

#[verifier::external_body]
pub fn get_pentagon_vertices(resolution: i32, quintant: usize, anchor: &Anchor) -> (r: PentagonShape)
    requires quintant < 5, anchor.flips_ok(),
    ensures r.nverts() == 5,
{ unimplemented!() }

// hilbert.rs::s_to_anchor: allocates `resolution` digits, computes (1u64 << (2*resolution)) - s - 1 and
// (1 << resolution) as f64 (i32 shift): needs 1 <= resolution <= 30 and s < 4^resolution; the callers
// can guarantee resolution <= 28
#[verifier::external_body]
pub fn s_to_anchor(s: u64, resolution: usize, orientation: Orientation) -> (r: Anchor)
    requires 1 <= resolution <= 28, s < (1u64 << ((2 * resolution) as u64)),
    ensures r.flips_ok(),
{ unimplemented!() }

// DodecahedronProjection::get_thread_local().inverse(face, origin_id): origin_id indexes the face table
#[verifier::external_body]
pub fn dodecahedron_inverse(face: Face, origin_id: u8) -> (r: Result<SphericalPt, String>)
    requires origin_id < 12,
{ unimplemented!() }

#[verifier::external_body]
pub fn dodecahedron_forward(p: SphericalPt, origin_id: u8) -> (r: Result<Face, String>)
    requires origin_id < 12,
{ unimplemented!() }

#[verifier::external_body]
pub fn to_lon_lat(p: SphericalPt) -> LonLat { unimplemented!() }

#[verifier::external_body]
pub fn from_lon_lat(p: LonLat) -> SphericalPt { unimplemented!() }

#[verifier::external_body]
pub fn normalize_longitudes(v: Vec<LonLat>) -> (r: Vec<LonLat>)
    ensures r@.len() == v@.len(),
{ unimplemented!() }

#[verifier::external_body]
pub fn vec_reverse_lonlat(v: &mut Vec<LonLat>)
    ensures final(v)@ == old(v)@.reverse(),
{ v.reverse() }

// ---- float callees of lonlat_to_estimate (cell.rs); ASSUMED total, integer preconditions are obligations
#[verifier::external_body] #[derive(Clone, Copy)] pub struct PolarPt { _p: f64 }
#[verifier::external_body] #[derive(Clone, Copy)] pub struct IJPt { _p: f64 }

// origin.rs::find_nearest_origin: returns a reference into the face table (`&origins[0]` or a later element)
#[verifier::external_body]
pub fn find_nearest_origin(point: SphericalPt) -> (r: &'static Origin)
    ensures origins_ok(get_origins_spec()), r.id < 12, *r == get_origins_spec()[r.id as int],
{ unimplemented!() }

#[verifier::external_body]
pub fn to_polar(face: Face) -> PolarPt { unimplemented!() }

// tiling.rs::get_quintant_polar: `(.. as i32 + 5) as usize % 5`
#[verifier::external_body]
pub fn get_quintant_polar(polar: PolarPt) -> (r: usize)
    ensures r < 5,
{ unimplemented!() }

// origin.rs::quintant_to_segment: `(quintant + 5 - first_quintant) % 5`, `layout[..]`, `(first_quintant + ..) % 5`;
// for the 12 real faces x 5 quintants the result `< 5` is part of what Kani K3 proves on the real function
#[verifier::external_body]
pub fn quintant_to_segment(quintant: usize, origin: &Origin) -> (r: (usize, Orientation))
    requires quintant < 5, origin.first_quintant < 5, origin.orientation@.len() == 5,
    ensures r.0 < 5,
{ unimplemented!() }

// the float expressions of lonlat_to_estimate (rotation into the first fifth, scaling by 2^depth): no integer content
#[verifier::external_body]
pub fn rotate_into_fifth(p: Face, quintant: usize) -> Face { unimplemented!() }
#[verifier::external_body]
pub fn f_pow2(e: i32) -> f64 { unimplemented!() }
#[verifier::external_body]
pub fn f_scale_face(p: Face, k: f64) -> Face { unimplemented!() }

#[verifier::external_body]
pub fn face_to_ij(p: Face) -> IJPt { unimplemented!() }

// hilbert.rs::ij_to_s: `1 << resolution` (i32) and `1u64 << (2 * resolution)`: needs resolution <= 30; digits < 4
// summed with weights 4^i: result < 4^resolution is NOT assumed here (serialize re-checks it)
#[verifier::external_body]
pub fn ij_to_s(ij: IJPt, resolution: usize, orientation: Orientation) -> (r: u64)
    requires 1 <= resolution <= 28,
{ unimplemented!() }

// float expressions of lonlat_to_cell's sampling spiral (no integer content)
#[verifier::external_body]
pub fn f_scale(hilbert_resolution: i32) -> f64 { unimplemented!() }
#[verifier::external_body]
pub fn f_sample(lonlat: LonLat, i: i32, n: i32, scale: f64) -> LonLat { unimplemented!() }

pub fn cell_clone(c: &A5Cell) -> (r: A5Cell)
    ensures r == *c,
{ A5Cell { origin_id: c.origin_id, segment: c.segment, s: c.s, resolution: c.resolution } }

// std HashSet<u64> of lonlat_to_cell under an assumed contract
#[verifier::external_body]
pub struct KeySet { inner: std::collections::HashSet<u64> }
impl View for KeySet {
    type V = Set<u64>;
    uninterp spec fn view(&self) -> Set<u64>;
}
impl KeySet {
    #[verifier::external_body]
    pub fn new() -> (r: KeySet) ensures r@ == Set::<u64>::empty(), { KeySet { inner: std::collections::HashSet::new() } }
    #[verifier::external_body]
    pub fn contains(&self, k: &u64) -> (r: bool) ensures r == self@.contains(*k), { self.inner.contains(k) }
    #[verifier::external_body]
    pub fn insert(&mut self, k: u64) -> (r: bool) ensures final(self)@ == old(self)@.insert(k), { self.inner.insert(k) }
}

// cells.sort_by(|a, b| b.1.partial_cmp(&a.1)..): a permutation (ASSUMED std contract)
#[verifier::external_body]
pub fn sort_cells_by_distance(v: &mut Vec<(A5Cell, f64)>)
    ensures
        final(v)@.len() == old(v)@.len(),
        forall|i: int| 0 <= i < final(v)@.len() ==> old(v)@.contains(#[trigger] final(v)@[i]),
{ v.sort_by(|a, b| b.1.partial_cmp(&a.1).unwrap_or(std::cmp::Ordering::Equal)) }

pub assume_specification [i32::pow] (b: i32, e: u32) -> (r: i32)
    requires ipow(b as int, e as nat) <= i32::MAX, ipow(b as int, e as nat) >= i32::MIN,
    ensures r == ipow(b as int, e as nat);


/// C11: number of points of the boundary ring: vertices * n, plus the repeated first point when closed
pub open spec fn ring_segments(c: A5Cell, options: Option<CellToBoundaryOptions>) -> int {
    let seg: Option<i32> = match options { Some(o) => o.segments, None => None };
    let n: int = match seg {
        Some(v) => v as int,
        None => { let d = (if 6 - c.resolution > 0 { 6 - c.resolution } else { 0 }); let p = ipow(2, d as nat); if p > 1 { p } else { 1 } },
    };
    if n <= 1 { 1 } else { n }
}

pub open spec fn ring_closed(options: Option<CellToBoundaryOptions>) -> bool {
    match options { Some(o) => o.closed_ring, None => true }
}

pub open spec fn ring_len(c: A5Cell, options: Option<CellToBoundaryOptions>) -> int {
    let closed = match options { Some(o) => o.closed_ring, None => true };
    (if c.resolution == 1 { 3int } else { 5int }) * ring_segments(c, options) + (if closed { 1int } else { 0int })
}

} // verus!
