//# tags=C10
// ---- C10: a compacted set is a canonical description of its region (uniqueness of the maximal antichain)
verus! {

/// a descendant of c at resolution m (the first child, repeatedly)
pub open spec fn leaf(c: A5Cell, m: int) -> A5Cell
    decreases m - c.resolution,
{
    if c.resolution >= m || c.resolution < -1 || m > 29 { c } else { leaf(sibling(c, 0), m) }
}

pub proof fn lemma_desc_trans(x: A5Cell, b: A5Cell, a: A5Cell)
    requires is_desc(x, b), is_desc(b, a),
    ensures is_desc(x, a),
{
    lemma_anc_compose(x, b.resolution as int, a.resolution as int);
}

pub proof fn lemma_leaf(c: A5Cell, m: int)
    requires valid(c), c.resolution <= m <= 29,
    ensures valid(leaf(c, m)), leaf(c, m).resolution == m, is_desc(leaf(c, m), c),
    decreases m - c.resolution,
{
    if c.resolution < m {
        lemma_sibling_valid(c, 0);
        lemma_sibling_parent(c, 0);
        lemma_leaf(sibling(c, 0), m);
        lemma_desc_trans(leaf(c, m), sibling(c, 0), c);
    }
}

/// two ancestors of the same cell are comparable
pub proof fn lemma_comparable(y: A5Cell, a: A5Cell, b: A5Cell)
    requires is_desc(y, a), is_desc(y, b), valid(a), valid(b), a.resolution <= b.resolution,
    ensures is_desc(b, a),
{
    lemma_anc_compose(y, b.resolution as int, a.resolution as int);
}

pub open spec fn below(l: Seq<u64>, a: A5Cell, j: int) -> bool {
    is_desc(dec(l[j]), a) && dec(l[j]).resolution > a.resolution
}

pub proof fn lemma_deepest(l: Seq<u64>, a: A5Cell, n: int) -> (js: int)
    requires 0 <= n <= l.len(), exists|j: int| 0 <= j < n && below(l, a, j),
    ensures
        0 <= js < n, below(l, a, js),
        forall|j: int| 0 <= j < n && below(l, a, j) ==> dec(l[j]).resolution <= dec(l[js]).resolution,
    decreases n,
{
    if exists|j: int| 0 <= j < n - 1 && below(l, a, j) {
        let prev = lemma_deepest(l, a, n - 1);
        if below(l, a, n - 1) && dec(l[n - 1]).resolution > dec(l[prev]).resolution { n - 1 } else { prev }
    } else {
        let w = choose|j: int| 0 <= j < n && below(l, a, j);
        assert(w == n - 1);
        n - 1
    }
}

/// hypotheses shared by the uniqueness lemmas: two maximal antichains of valid cells covering the same
/// cells of resolution m, where m is at least as fine as every entry
pub open spec fn same_region(x: Seq<u64>, y: Seq<u64>, m: int) -> bool {
    &&& all_canonical(x) && all_canonical(y)
    &&& antichain(x) && antichain(y)
    &&& maximal(x) && maximal(y)
    &&& m <= 29 && max_res_le(x, m) && max_res_le(y, m)
    &&& forall|c: A5Cell| valid(c) && c.resolution == m ==> (covers(x, c) <==> covers(y, c))
}

/// no entry of y lies strictly below an entry a of x: otherwise y would contain a complete sibling group
pub proof fn lemma_nothing_strictly_below(x: Seq<u64>, y: Seq<u64>, m: int, k: int, j0: int)
    requires same_region(x, y, m), 0 <= k < x.len(), 0 <= j0 < y.len(), below(y, dec(x[k]), j0),
    ensures false,
{
    let a = dec(x[k]);
    lemma_canonical_decodable(x[k]);
    lemma_dec_res(x[k]);
    let js = lemma_deepest(y, a, y.len() as int);
    let d = dec(y[js]);
    lemma_canonical_decodable(y[js]);
    lemma_dec_res(y[js]);
    let r = d.resolution as int;
    let p = parent1(d);
    lemma_anc_valid(d, r - 1);
    lemma_anc_step(d, r - 1);
    // p = parent(d) is still below-or-equal a
    lemma_anc_compose(d, r - 1, a.resolution as int);
    assert(is_desc(p, a));
    assert forall|t: int| 0 <= t < group_size(p.resolution + 1) implies y.contains(enc(#[trigger] sibling(p, t))) by {
        let e = sibling(p, t);
        lemma_sibling_valid(p, t);
        lemma_sibling_parent(p, t);
        assert(e.resolution == r);
        assert(r <= m) by { assert(res_of(y[js]) <= m); }
        lemma_leaf(e, m);
        let ye = leaf(e, m);
        lemma_desc_trans(ye, e, p);
        lemma_desc_trans(ye, p, a);
        assert(is_desc(ye, dec(x[k])));
        assert(covers(x, ye));
        assert(covers(y, ye));
        let jb = choose|jb: int| 0 <= jb < y.len() && is_desc(ye, dec(#[trigger] y[jb]));
        let b = dec(y[jb]);
        lemma_canonical_decodable(y[jb]);
        lemma_dec_res(y[jb]);
        if b.resolution == e.resolution {
            lemma_comparable(ye, e, b);
            assert(b == e);
            assert(y[jb] == enc(e));
        } else if b.resolution > e.resolution {
            // strictly below e, hence strictly below a and deeper than the deepest: impossible
            lemma_comparable(ye, e, b);
            lemma_desc_trans(b, e, p);
            lemma_desc_trans(b, p, a);
            assert(below(y, a, jb));
            assert(false);
        } else {
            // strictly above e: then it is above-or-equal p, hence an ancestor of d, overlapping d inside y
            lemma_comparable(ye, b, e);
            assert(is_desc(e, b));
            lemma_anc_compose(e, r - 1, b.resolution as int);
            assert(is_desc(p, b));
            lemma_desc_trans(d, p, b);
            assert(jb != js);
            assert(overlap(dec(y[js]), dec(y[jb])));
            assert(false);
        }
    }
    assert(p.resolution <= 28);
    assert(false);
}

/// every entry of x is an entry of y
pub proof fn lemma_entry_shared(x: Seq<u64>, y: Seq<u64>, m: int, k: int)
    requires same_region(x, y, m), 0 <= k < x.len(),
    ensures y.contains(x[k]),
{
    let a = dec(x[k]);
    lemma_canonical_decodable(x[k]);
    lemma_dec_res(x[k]);
    assert(res_of(x[k]) <= m);
    lemma_leaf(a, m);
    let ya = leaf(a, m);
    assert(covers(x, ya));
    assert(covers(y, ya));
    let j = choose|j: int| 0 <= j < y.len() && is_desc(ya, dec(#[trigger] y[j]));
    let b = dec(y[j]);
    lemma_canonical_decodable(y[j]);
    lemma_dec_res(y[j]);
    if b.resolution == a.resolution {
        lemma_comparable(ya, a, b);
        assert(a == b);
        assert(y[j] == x[k]);
    } else if b.resolution > a.resolution {
        lemma_comparable(ya, a, b);
        assert(below(y, a, j));
        lemma_nothing_strictly_below(x, y, m, k, j);
    } else {
        lemma_comparable(ya, b, a);
        assert(below(x, b, k));
        lemma_nothing_strictly_below(y, x, m, j, k);
    }
}

/// C10: two maximal non-overlapping lists of valid cells that cover the same region are the same set
pub proof fn thm_canonical(x: Seq<u64>, y: Seq<u64>, m: int)
    requires same_region(x, y, m),
    ensures x.to_set() == y.to_set(),                                                             // [C10:canonical]
{
    assert forall|v: u64| x.to_set().contains(v) <==> y.to_set().contains(v) by {
        if x.contains(v) {
            let k = choose|k: int| 0 <= k < x.len() && x[k] == v;
            lemma_entry_shared(x, y, m, k);
        }
        if y.contains(v) {
            let k = choose|k: int| 0 <= k < y.len() && y[k] == v;
            lemma_entry_shared(y, x, m, k);
        }
    }
    assert(x.to_set() =~= y.to_set());
}


/// what compact()'s contract gives for an input list l of the proved class and its result o
pub open spec fn compact_post(l: Seq<u64>, o: Seq<u64>) -> bool {
    &&& all_canonical(o) && antichain(o) && maximal(o)
    &&& forall|mm: int| max_res_le(l, mm) ==> max_res_le(o, mm)
    &&& forall|c: A5Cell| valid(c) && max_res_le(l, c.resolution as int) ==> (covers(o, c) <==> covers(l, c))
}

/// C10 (canonical): two non-overlapping inputs covering the same region compact to the same set -
/// a lemma over compact()'s contract
pub proof fn thm_compact_canonical(l1: Seq<u64>, l2: Seq<u64>, o1: Seq<u64>, o2: Seq<u64>, m: int)
    requires
        compact_post(l1, o1), compact_post(l2, o2),
        m <= 29, max_res_le(l1, m), max_res_le(l2, m),
        forall|c: A5Cell| valid(c) && c.resolution == m ==> (covers(l1, c) <==> covers(l2, c)),
    ensures o1.to_set() == o2.to_set(),                                                           // [C10:same-region-same-set]
{
    assert(same_region(o1, o2, m));
    thm_canonical(o1, o2, m);
}

} // verus!
