//# tags=C05
// ---- pure lemmas over the codec specification (C05: bijection, resolution read-back, injectivity)
verus! {

pub proof fn bv_enc_bits(code: u64, s: u64, p: u64, q: u64)
    requires code < 64, p < 58,
    ensures
        ((((code << 58) | (s << ((p + 1) as u64)) | (1u64 << p)) >> p) & 1) == 1,
        q < p ==> ((((code << 58) | (s << ((p + 1) as u64)) | (1u64 << p)) >> q) & 1) == 0,
{
    assert(code < 64 && p < 58 ==>
        ((((code << 58) | (s << add(p, 1)) | (1u64 << p)) >> p) & 1) == 1) by (bit_vector);
    assert(code < 64 && p < 58 && q < p ==>
        ((((code << 58) | (s << add(p, 1)) | (1u64 << p)) >> q) & 1) == 0) by (bit_vector);
}

pub proof fn bv_enc_fields(code: u64, s: u64, p: u64)
    requires code < 64, p < 58, s < (1u64 << ((57 - p) as u64)),
    ensures
        (((code << 58) | (s << ((p + 1) as u64)) | (1u64 << p)) >> 58) == code,
        ((((code << 58) | (s << ((p + 1) as u64)) | (1u64 << p)) & 0x03ffffffffffffffu64) >> ((p + 1) as u64)) == s,
{
    assert(code < 64 && p < 58 && s < (1u64 << sub(57, p)) ==>
        (((code << 58) | (s << add(p, 1)) | (1u64 << p)) >> 58) == code) by (bit_vector);
    assert(code < 64 && p < 58 && s < (1u64 << sub(57, p)) ==>
        ((((code << 58) | (s << add(p, 1)) | (1u64 << p)) & 0x03ffffffffffffffu64) >> add(p, 1)) == s) by (bit_vector);
}

pub proof fn bv_dec_fields(x: u64, p: u64)
    requires p < 58,
    ensures
        (x >> 58) < 64,
        ((x & 0x03ffffffffffffffu64) >> ((p + 1) as u64)) < (1u64 << ((57 - p) as u64)),
{
    assert((x >> 58) < 64) by (bit_vector);
    assert(p < 58 ==> ((x & 0x03ffffffffffffffu64) >> add(p, 1)) < (1u64 << sub(57, p))) by (bit_vector);
}

/// if the marker positions of all resolutions in (r, hi] are clear and (r >= 0 ==>) that of r is set,
/// the probe started at hi returns r
pub proof fn lemma_probe_from(x: u64, hi: int, r: int)
    requires
        -1 <= r <= hi <= 29,
        r >= 0 ==> bit(x, marker_pos(r)),
        forall|k: int| r < k <= hi ==> !bit(x, #[trigger] marker_pos(k)),
    ensures probe(x, hi) == r,
    decreases hi - r,
{
    if hi > r {
        assert(!bit(x, marker_pos(hi)));
        lemma_probe_from(x, hi - 1, r);
    }
}

pub proof fn lemma_code6_range(c: A5Cell)
    requires valid(c), c.resolution >= 0,
    ensures
        0 <= code6(c) < 60,
        c.resolution == 0 ==> code6(c) < 12,
        c.resolution >= 1 ==> code6(c) / 5 == c.origin_id && (code6(c) + FQ(c.origin_id as int)) % 5 == c.segment,
{
}

pub proof fn lemma_res_of_enc(c: A5Cell)
    requires valid(c),
    ensures res_of(enc(c)) == c.resolution,                      // [C05:resolution-read-back]
{
    let x = enc(c);
    let r = c.resolution as int;
    if r == -1 {
        assert forall|k: int| -1 < k <= 29 implies !bit(0u64, #[trigger] marker_pos(k)) by {
            let q = marker_pos(k) as u64;
            assert(((0u64 >> q) & 1) == 0) by (bit_vector);
        }
        lemma_probe_from(0u64, 29, -1);
    } else {
        lemma_code6_range(c);
        let code = code6(c) as u64;
        let p = marker_pos(r) as u64;
        bv_enc_bits(code, c.s, p, 0);
        assert forall|k: int| r < k <= 29 implies !bit(x, #[trigger] marker_pos(k)) by {
            bv_enc_bits(code, c.s, p, marker_pos(k) as u64);
        }
        lemma_probe_from(x, 29, r);
    }
}

/// C05: decode(encode(c)) == c for every valid cell
pub proof fn lemma_dec_enc(c: A5Cell)
    requires valid(c),
    ensures decodable(enc(c)), dec(enc(c)) == c,                 // [C05:decode-after-encode]
{
    lemma_res_of_enc(c);
    let r = c.resolution as int;
    if r >= 0 {
        lemma_code6_range(c);
        let code = code6(c) as u64;
        let p = marker_pos(r) as u64;
        if r < 2 {
            assert(c.s == 0);
            assert((1u64 << ((57 - p) as u64)) > 0) by (bit_vector) requires p < 58;
        } else {
            assert(57 - p == 2 * r - 2);
        }
        bv_enc_fields(code, c.s, p);
        assert(top6(enc(c)) == code6(c));
        if r >= 2 { assert(60 - 2 * r == p + 1); }
    }
}

/// C05: different valid cells never share an ID
pub proof fn lemma_enc_injective(c1: A5Cell, c2: A5Cell)
    requires valid(c1), valid(c2), enc(c1) == enc(c2),
    ensures c1 == c2,                                            // [C05:injective]
{
    lemma_dec_enc(c1);
    lemma_dec_enc(c2);
}

/// C05/C14: whatever decodes, decodes to a valid cell; re-encoding gives an ID that decodes to the
/// same cell (the canonical ID the bit pattern aliases) and is the identity on canonical IDs
pub proof fn lemma_enc_dec(x: u64)
    requires decodable(x),
    ensures
        valid(dec(x)),                                           // [C05:decode-valid]
        dec(enc(dec(x))) == dec(x),                              // [C14:alias-canonical]
        canonical(x) ==> enc(dec(x)) == x,                       // [C05:encode-after-decode]
{
    let r = res_of(x);
    lemma_res_range(x, 29);
    if r >= 0 {
        let p = marker_pos(r) as u64;
        bv_dec_fields(x, p);
        if r >= 2 { assert(57 - p == 2 * r - 2); assert(60 - 2 * r == p + 1); }
        else {
            assert((1u64 << 0) == 1) by (bit_vector);
        }
        assert(valid(dec(x)));
    }
    lemma_dec_enc(dec(x));
    if canonical(x) {
        let c = choose|c: A5Cell| valid(c) && enc(c) == x;
        lemma_dec_enc(c);
    }
}

pub proof fn lemma_res_range(x: u64, hi: int)
    requires -1 <= hi <= 29,
    ensures -1 <= probe(x, hi) <= hi,
    decreases hi + 1,
{
    if hi >= 0 && !bit(x, marker_pos(hi)) { lemma_res_range(x, hi - 1); }
}

/// canonical IDs decode; non-decodable bit patterns are not IDs of any cell
pub proof fn lemma_canonical_decodable(x: u64)
    requires canonical(x),
    ensures decodable(x), valid(dec(x)), enc(dec(x)) == x,
{
    let c = choose|c: A5Cell| valid(c) && enc(c) == x;
    lemma_dec_enc(c);
}

pub proof fn lemma_valid_norm(c: A5Cell)
    requires valid(c),
    ensures norm(c) == c, ser_defined(c),
{
    if c.resolution >= 0 && c.resolution < 2 { assert(c.s < 1); }
}

pub proof fn lemma_norm_valid(c: A5Cell)
    requires ser_defined(c), c.origin_id < 12, c.segment < 5,
    ensures valid(norm(c)),
{
    if c.resolution >= 0 && c.resolution < 2 { assert(s_limit(c.resolution as int) == 1); }
}

} // verus!
