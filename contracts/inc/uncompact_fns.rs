verus! {

pub fn vec_extend(r: &mut Vec<u64>, c: Vec<u64>)
    ensures final(r)@ == old(r)@ + c@,
{
    let mut c = c;
    r.append(&mut c);
}

//@extract fn uncompact from src/core/compact.rs ret=res tags=C09,C14
//@fnattr #[verifier::loop_isolation(false)]
//@rewrite "result.extend(children);" => "vec_extend(&mut result, children);"
//@rewrite "let mut n = 0;" => "let mut n: usize = 0;"
//@spec
requires
    uncompact_scope(cells@, target_resolution as int),
ensures
    (target_resolution < -1 || target_resolution > 29) ==> res is Err,                                          // [C14:uncompact.rejects-range]
    (exists|i: int| 0 <= i < cells@.len() && res_of(#[trigger] cells@[i]) > target_resolution) ==> res is Err,   // [C09:uncompact.err-if-finer]
    res is Ok ==> res->Ok_0@ == flat(cells@, target_resolution as int, cells@.len() as int),                     // [C09:uncompact.value]
    res is Ok ==> (forall|k: int| 0 <= k < res->Ok_0@.len() ==> canonical(#[trigger] res->Ok_0@[k]) && res_of(res->Ok_0@[k]) == target_resolution),   // [C05,C14:uncompact.canonical-output]
    (-1 <= target_resolution <= 29 && forall|i: int| 0 <= i < cells@.len() ==> decodable(#[trigger] cells@[i]) && res_of(cells@[i]) <= target_resolution) ==> res is Ok,   // [C09:uncompact.ok-iff-none-finer]
//@at entry
hide(enc); hide(dec); hide(decodable); hide(probe); hide(kids_ids);
//@loop 1
invariant
    resolutions@.len() == __k_cell,
    forall|j: int| 0 <= j < __k_cell ==> resolutions@[j] == res_of(cells@[j]) && res_of(#[trigger] cells@[j]) <= target_resolution,
    n <= __k_cell * 65536,
//@at loop 1 body-start
proof {
    lemma_res_range(cell, 29);
    if res_of(cell) <= target_resolution { lemma_fan_lower(res_of(cell), target_resolution as int); }
}
//@loop 2
invariant
    result@ == flat(cells@, target_resolution as int, i as int),
    forall|j: int| 0 <= j < i ==> decodable(#[trigger] cells@[j]),
//@at loop 2 body-start
proof {
    lemma_res_range(cell, 29);
    lemma_fan_lower(res_of(cell), target_resolution as int);
    lemma_dec_res(cell);
}
//@at loop 2 body-end
proof {
    assert(result@ =~= flat(cells@, target_resolution as int, i as int) + self_or_kids(cell, target_resolution as int));
}
//@at before-tail
proof {
    // every input decoded (otherwise a `?` above returned Err): the outputs are canonical IDs of the target resolution
    assert(forall|i: int| 0 <= i < cells@.len() ==> decodable(#[trigger] cells@[i]));
    thm_flat_canonical(cells@, target_resolution as int, cells@.len() as int);
}
//@end

} // verus!
