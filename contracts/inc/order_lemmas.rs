//# tags=C20
// ---- C20: numeric ID order is compatible with the hierarchy from the quintant level down
verus! {

/// open ID interval occupied by the subtree of a cell of resolution >= 1
pub open spec fn span_lo(c: A5Cell) -> int {
    if c.resolution == 1 { ((code6(c) as u64) << 58) as int } else { enc(c) - (1u64 << (marker_pos(c.resolution as int) as u64)) }
}

pub open spec fn span_hi(c: A5Cell) -> int {
    if c.resolution == 1 { ((code6(c) as u64) << 58) + 0x0400000000000000 } else { enc(c) + (1u64 << (marker_pos(c.resolution as int) as u64)) }
}

pub open spec fn in_span(c: A5Cell, y: u64) -> bool { span_lo(c) < y < span_hi(c) }

pub proof fn bv_span_l1(x: u64, y: u64, p: u64)
    requires p < 58, x < 0xf000000000000000u64, (x & sub(1u64 << ((p + 1) as u64), 1)) == (1u64 << p),
    ensures
        x >= (1u64 << p), x + (1u64 << p) <= u64::MAX,
        (x - (1u64 << p) < y && y < x + (1u64 << p)) <==> ((y >> ((p + 1) as u64)) == (x >> ((p + 1) as u64)) && (y & sub(1u64 << ((p + 1) as u64), 1)) != 0),
{
    assert(p < 58 && x < 0xf000000000000000u64 && (x & sub(1u64 << add(p, 1), 1)) == (1u64 << p) ==>
        x >= (1u64 << p) && add(x, 1u64 << p) > x && (1u64 << p) <= 0x0200000000000000u64 &&
        ((sub(x, 1u64 << p) < y && y < add(x, 1u64 << p)) <==> ((y >> add(p, 1)) == (x >> add(p, 1)) && (y & sub(1u64 << add(p, 1), 1)) != 0))) by (bit_vector);
}

pub proof fn bv_span_l2(y: u64, p: u64, q: u64)
    requires p < 58, q < 58, (y & sub(1u64 << q, 1)) == 0, (y >> q) & 1 == 1,
    ensures ((y & sub(1u64 << ((p + 1) as u64), 1)) != 0) <==> q <= p,
{
    assert(p < 58 && q < 58 && (y & sub(1u64 << q, 1)) == 0 && (y >> q) & 1 == 1 ==>
        (((y & sub(1u64 << add(p, 1), 1)) != 0) <==> q <= p)) by (bit_vector);
}

pub proof fn bv_low_bits(code: u64, s: u64, p: u64)
    requires code < 60, p < 58,
    ensures
        (((code << 58) | (s << ((p + 1) as u64)) | (1u64 << p)) & sub(1u64 << ((p + 1) as u64), 1)) == (1u64 << p),
        (((code << 58) | (s << ((p + 1) as u64)) | (1u64 << p)) & sub(1u64 << p, 1)) == 0,
        ((((code << 58) | (s << ((p + 1) as u64)) | (1u64 << p)) >> p) & 1) == 1,
{
    assert(code < 60 && p < 58 ==> (((code << 58) | (s << add(p, 1)) | (1u64 << p)) & sub(1u64 << add(p, 1), 1)) == (1u64 << p)
        && (((code << 58) | (s << add(p, 1)) | (1u64 << p)) & sub(1u64 << p, 1)) == 0
        && ((((code << 58) | (s << add(p, 1)) | (1u64 << p)) >> p) & 1) == 1) by (bit_vector);
}

pub proof fn bv_enc_below(code: u64, s: u64, p: u64)
    requires code < 60, p < 58, s < (1u64 << ((57 - p) as u64)),
    ensures
        ((code << 58) | (s << ((p + 1) as u64)) | (1u64 << p)) < 0xf000000000000000u64,
        (code << 58) < ((code << 58) | (s << ((p + 1) as u64)) | (1u64 << p)),
        ((code << 58) | (s << ((p + 1) as u64)) | (1u64 << p)) < (code << 58) + 0x0400000000000000,
{
    assert(code < 60 && p < 58 && s < (1u64 << sub(57, p)) ==>
        ((code << 58) | (s << add(p, 1)) | (1u64 << p)) < 0xf000000000000000u64
        && (code << 58) < ((code << 58) | (s << add(p, 1)) | (1u64 << p))
        && (code << 58) <= 0xec00000000000000u64
        && ((code << 58) | (s << add(p, 1)) | (1u64 << p)) < add(code << 58, 0x0400000000000000u64)) by (bit_vector);
}

pub proof fn bv_hi_split(x: u64, y: u64, p: u64)
    requires p < 58,
    ensures ((y >> ((p + 1) as u64)) == (x >> ((p + 1) as u64)))
        <==> ((y >> 58) == (x >> 58) && ((y & 0x03ffffffffffffffu64) >> ((p + 1) as u64)) == ((x & 0x03ffffffffffffffu64) >> ((p + 1) as u64))),
{
    assert(p < 58 ==> (((y >> add(p, 1)) == (x >> add(p, 1)))
        <==> ((y >> 58) == (x >> 58) && ((y & 0x03ffffffffffffffu64) >> add(p, 1)) == ((x & 0x03ffffffffffffffu64) >> add(p, 1))))) by (bit_vector);
}

pub proof fn bv_code_order(a: u64, b: u64)
    requires a < 60, b < 60,
    ensures a < b ==> (a << 58) + 0x0400000000000000 <= (b << 58), a == b <==> (a << 58) == (b << 58),
{
    assert(a < 60 && b < 60 ==> (a < b ==> add(a << 58, 0x0400000000000000u64) <= (b << 58) && (a << 58) <= 0xe800000000000000u64)
        && (a == b <==> (a << 58) == (b << 58))) by (bit_vector);
}

pub proof fn bv_stride_apart(x: u64, y: u64, p: u64)
    requires p < 58, x < y, y < 0xf000000000000000u64,
        (x & sub(1u64 << ((p + 1) as u64), 1)) == (1u64 << p), (y & sub(1u64 << ((p + 1) as u64), 1)) == (1u64 << p),
    ensures x + (1u64 << p) <= y - (1u64 << p),
{
    assert(p < 58 && x < y && y < 0xf000000000000000u64 && (x & sub(1u64 << add(p, 1), 1)) == (1u64 << p) && (y & sub(1u64 << add(p, 1), 1)) == (1u64 << p) ==>
        add(x, 1u64 << p) <= sub(y, 1u64 << p) && add(x, 1u64 << p) > x && y >= (1u64 << p) && (1u64 << p) <= 0x0200000000000000u64) by (bit_vector);
}

/// code6 determines face and segment for cells of resolution >= 1
pub proof fn lemma_code6_inj(a: A5Cell, b: A5Cell)
    requires valid(a), valid(b), a.resolution >= 1, b.resolution >= 1,
    ensures code6(a) == code6(b) <==> (a.origin_id == b.origin_id && a.segment == b.segment),
{
    lemma_code6_range(a);
    lemma_code6_range(b);
}

/// C20: among cells of resolution >= 1 the subtree of c is exactly the open ID interval span(c)
pub proof fn thm_subtree_is_span(c: A5Cell, d: A5Cell)
    requires valid(c), valid(d), c.resolution >= 1, d.resolution >= 1,
    ensures is_desc(d, c) <==> in_span(c, enc(d)),                                  // [C20:subtree-is-interval]
{
    lemma_code6_range(c);
    lemma_code6_range(d);
    lemma_code6_inj(c, d);
    let x = enc(c);
    let y = enc(d);
    let cc = code6(c) as u64;
    let cd = code6(d) as u64;
    let p = marker_pos(c.resolution as int) as u64;
    let q = marker_pos(d.resolution as int) as u64;
    if d.resolution >= 2 { assert(57 - q == 2 * d.resolution - 2); } else { assert(d.s == 0); assert((1u64 << 1) == 2) by (bit_vector); }
    if c.resolution >= 2 { assert(57 - p == 2 * c.resolution - 2); } else { assert(c.s == 0); assert((1u64 << 1) == 2) by (bit_vector); }
    bv_enc_fields(cd, d.s, q);
    bv_enc_fields(cc, c.s, p);
    bv_enc_below(cd, d.s, q);
    bv_enc_below(cc, c.s, p);
    if c.resolution == 1 {
        bv_code_order(cc, cd);
        bv_code_order(cd, cc);
        // descendants of a quintant = every cell of resolution >= 1 with the same face/quintant code
        if cc == cd { assert(in_span(c, y)); }
        assert(is_desc(d, c) <==> cc == cd);
    } else {
        bv_low_bits(cc, c.s, p);
        bv_low_bits(cd, d.s, q);
        bv_span_l1(x, y, p);
        bv_span_l2(y, p, q);
        bv_hi_split(x, y, p);
        if q <= p {
            // d is at least as fine as c: compare the curve-position prefix
            assert(d.resolution >= c.resolution);
            let z = y & 0x03ffffffffffffffu64;
            bv_shr_even(z, ((q + 1) / 2) as u64, ((p - q) / 2) as u64);
            assert((z >> ((p + 1) as u64)) == (d.s >> ((p - q) as u64)));
            assert(p - q == 2 * (d.resolution - c.resolution));
            if d.resolution == c.resolution {
                let s0 = d.s;
                assert(s0 >> 0 == s0) by (bit_vector);
            }
        } else {
            assert(d.resolution < c.resolution);
        }
    }
}

/// C20: for a < b of the same resolution >= 2, every descendant of a precedes every descendant of b
pub proof fn thm_desc_order(a: A5Cell, b: A5Cell, da: A5Cell, db: A5Cell)
    requires
        valid(a), valid(b), a.resolution == b.resolution, a.resolution >= 1, enc(a) < enc(b),
        is_desc(da, a), is_desc(db, b),
    ensures enc(da) < enc(db),                                                      // [C20:descendants-ordered]
{
    thm_subtree_is_span(a, da);
    thm_subtree_is_span(b, db);
    lemma_code6_range(a);
    lemma_code6_range(b);
    let p = marker_pos(a.resolution as int) as u64;
    if a.resolution >= 2 { assert(57 - p == 2 * a.resolution - 2); } else { assert((1u64 << 1) == 2) by (bit_vector); }
    bv_enc_below(code6(a) as u64, a.s, p);
    bv_enc_below(code6(b) as u64, b.s, p);
    if a.resolution == 1 {
        bv_code_order(code6(a) as u64, code6(b) as u64);
        bv_code_order(code6(b) as u64, code6(a) as u64);
    } else {
        bv_low_bits(code6(a) as u64, a.s, p);
        bv_low_bits(code6(b) as u64, b.s, p);
        bv_stride_apart(enc(a), enc(b), p);
    }
}

/// C20: for a < b of the same resolution r >= 2, every ancestor of a at resolutions 1..r is <= that of b
pub proof fn thm_ancestor_order(a: A5Cell, b: A5Cell, k: int)
    requires valid(a), valid(b), a.resolution == b.resolution, a.resolution >= 2, enc(a) < enc(b), 1 <= k <= a.resolution,
    ensures enc(anc(a, k)) <= enc(anc(b, k)),                                       // [C20:ancestors-ordered]
{
    let pa = anc(a, k);
    let pb = anc(b, k);
    lemma_anc_valid(a, k);
    lemma_anc_valid(b, k);
    if enc(pa) > enc(pb) {
        // then all descendants of pb (b among them) would precede all descendants of pa (a among them)
        thm_desc_order(pb, pa, b, a);
        assert(false);
    }
}

} // verus!
