//# tags=C08
// ---- C08 "does not depend on the order or multiplicity of the input": compact()'s result as a FUNCTION of the
//      scan-ordered enumeration of the input set (which is unique: lemma_sorted_scan_unique).  `pass_from` is what one
//      scan of the working list computes, `iter_pass` what n scans compute; compact() returns iter_pass(s, n) for the
//      first n at which no sibling test fires.  Two calls whose inputs have the same canonical set therefore return the
//      same list, whatever n each needed (thm_compact_order_independent).
verus! {

/// the ID compact() inserts where the sibling test fires at c: cell_to_parent(c, None)
pub open spec fn parent_id(c: u64) -> u64 { enc(anc(dec(c), parent_target(dec(c), None::<i32>))) }

/// one scan of the working list l from position i on
pub open spec fn pass_from(l: Seq<u64>, i: int) -> Seq<u64>
    decreases l.len() - i,
{
    if i < 0 || i >= l.len() { Seq::<u64>::empty() }
    else if merge_test(l, i) { seq![parent_id(l[i])] + pass_from(l, i + group_size(res_of(l[i]))) }
    else { seq![l[i]] + pass_from(l, i + 1) }
}

pub open spec fn iter_pass(l: Seq<u64>, n: nat) -> Seq<u64>
    decreases n,
{
    if n == 0 { l } else { pass_from(iter_pass(l, (n - 1) as nat), 0) }
}

/// r is what compact() computes from the input set of `cells`: some number of scans of its scan-ordered enumeration
pub open spec fn compact_fn_of_set(cells: Seq<u64>, r: Seq<u64>) -> bool {
    exists|s: Seq<u64>, n: nat| sorted_scan(s) && s.to_set() == canon_set(cells, cells.len() as int)
        && r == #[trigger] iter_pass(s, n)
}

pub proof fn lemma_pass_fixed(l: Seq<u64>, i: int)
    requires no_merge_possible(l), 0 <= i <= l.len(),
    ensures pass_from(l, i) == l.subrange(i, l.len() as int),
    decreases l.len() - i,
{
    if i < l.len() {
        lemma_pass_fixed(l, i + 1);
        assert(!merge_test(l, i));
        assert(seq![l[i]] + l.subrange(i + 1, l.len() as int) =~= l.subrange(i, l.len() as int));
    } else {
        assert(l.subrange(i, l.len() as int) =~= Seq::<u64>::empty());
    }
}

pub proof fn lemma_iter_stable(l: Seq<u64>, n: nat, k: nat)
    requires no_merge_possible(iter_pass(l, n)),
    ensures iter_pass(l, n + k) == iter_pass(l, n),
    decreases k,
{
    if k > 0 {
        lemma_iter_stable(l, n, (k - 1) as nat);
        let f = iter_pass(l, n);
        lemma_pass_fixed(f, 0);
        assert(f.subrange(0, f.len() as int) =~= f);
        assert(iter_pass(l, n + k) == pass_from(iter_pass(l, (n + k - 1) as nat), 0));
    }
}

/// C08, last sentence: the compacted result does not depend on the order or multiplicity of the input.
/// (ra, rb: results of two calls that satisfy compact()'s postconditions `function-of-input-set` and `fixed-point`)
pub proof fn thm_compact_order_independent(a: Seq<u64>, b: Seq<u64>, ra: Seq<u64>, rb: Seq<u64>)
    requires
        canon_set(a, a.len() as int) == canon_set(b, b.len() as int),
        compact_fn_of_set(a, ra), no_merge_possible(ra),
        compact_fn_of_set(b, rb), no_merge_possible(rb),
    ensures ra == rb,                                                                             // [C08:order-and-multiplicity-independent]
{
    let (sa, na) = choose|s: Seq<u64>, n: nat| sorted_scan(s) && s.to_set() == canon_set(a, a.len() as int) && ra == #[trigger] iter_pass(s, n);
    let (sb, nb) = choose|s: Seq<u64>, n: nat| sorted_scan(s) && s.to_set() == canon_set(b, b.len() as int) && rb == #[trigger] iter_pass(s, n);
    lemma_sorted_scan_unique(sa, sb);
    if na <= nb {
        lemma_iter_stable(sa, na, (nb - na) as nat);
    } else {
        lemma_iter_stable(sa, nb, (na - nb) as nat);
    }
}

} // verus!
