// unit `tree` : hierarchy functions against the C07 tree specification
//@include inc/base.rs
//@include inc/codec_spec.rs
//@include inc/codec_lemmas.rs
//@include inc/codec_fns.rs
//@include inc/tree_spec.rs
//@include inc/tree_lemmas.rs
//@include inc/order_lemmas.rs
//@include inc/tree_fns.rs
fn main() {}
