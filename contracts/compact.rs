// unit `compact` : uncompact / compact against the C09 / C08 / C10 specifications
//@include inc/base.rs
//@include inc/codec_spec.rs
//@include inc/codec_lemmas.rs
//@include inc/codec_fns.rs
//@include inc/tree_spec.rs
//@include inc/tree_lemmas.rs
//@include inc/order_lemmas.rs
//@include inc/tree_fns.rs
//@include inc/uncompact_spec.rs
//@include inc/uncompact_fns.rs
//@include inc/compact_spec.rs
//@include inc/maximal_spec.rs
//@include inc/scan_order.rs
//@include inc/compact_refines.rs
//@include inc/canonical_spec.rs
//@include inc/pass_spec.rs
//@include inc/compact_fns.rs
fn main() {}
