// unit `codec` : get_resolution / deserialize / serialize against the C05 layout specification
//@include inc/base.rs
//@include inc/codec_spec.rs
//@include inc/codec_lemmas.rs
//@include inc/codec_fns.rs
fn main() {}
